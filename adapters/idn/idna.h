/* Thin stand-in for GNU libidn's <idna.h> (libidn is not installed in this sandbox):
 * just what partial/idn/ uses.  adapters/adapter.c maps it onto the same converter
 * as the libidn2 build (idn2_to_ascii_8z, IDN2_NONTRANSITIONAL), i.e. "equivalent
 * IDN conversions" in the sense of property C18.                                 */
#ifndef VERIF_ADAPTER_IDNA_H
#define VERIF_ADAPTER_IDNA_H
#ifdef __cplusplus
extern "C" {
#endif
typedef enum { IDNA_SUCCESS = 0 } Idna_rc;
extern int idna_to_ascii_lz (const char *input, char **output, int flags);
extern const char *idna_strerror (Idna_rc rc);
#ifdef __cplusplus
}
#endif
#endif
