/* Thin stand-in for idnkit's <idn/api.h> (idnkit is not installed in this sandbox):
 * just what partial/idnkit/ and include/eav.h use.  adapters/adapter.c maps it onto
 * the same converter as the libidn2 build and counts contexts so that leaks and
 * double destroys become visible.                                                */
#ifndef VERIF_ADAPTER_IDN_API_H
#define VERIF_ADAPTER_IDN_API_H
#include <stddef.h>
#ifdef __cplusplus
extern "C" {
#endif
typedef int idn_result_t;
enum { idn_success = 0, idn_buffer_overflow = 9001, idn_nomemory = 9002 };
typedef struct vadapt_resconf *idn_resconf_t;
typedef unsigned long idn_action_t;
#define IDN_ENCODE_REGIST 0x2fffUL
extern idn_result_t idn_resconf_initialize (void);
extern idn_result_t idn_resconf_create (idn_resconf_t *ctxp);
extern void idn_resconf_destroy (idn_resconf_t ctx);
extern idn_result_t idn_res_encodename (idn_resconf_t ctx, idn_action_t actions, const char *from, char *to, size_t tolen);
extern const char *idn_result_tostring (idn_result_t r);
#ifdef __cplusplus
}
#endif
#endif
