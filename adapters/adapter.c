/* adapter.c — maps the libidn and idnkit entry points used by partial/idn and
 * partial/idnkit onto libidn2's converter, and counts idnkit contexts.
 * A context is a malloc'd token: a leaked context is an LSan report, a destroy of
 * a dead context an ASan report (use after free) or the explicit abort below.   */
#include <stdio.h>
#include <stdlib.h>
#include <string.h>
#define IDN2_SKIP_LIBIDN_COMPAT 1
#include <idn2.h>
#include "idn/idna.h"
#include "idnkit/idn/api.h"

long vadapt_creates = 0, vadapt_destroys = 0, vadapt_initializes = 0, vadapt_encodes = 0;
long vadapt_live (void) { return vadapt_creates - vadapt_destroys; }

int
idna_to_ascii_lz (const char *input, char **output, int flags)
{
    (void) flags;
    return idn2_to_ascii_8z (input, output, IDN2_NONTRANSITIONAL);
}

const char *
idna_strerror (Idna_rc rc)
{
    return idn2_strerror ((int) rc);
}

struct vadapt_resconf { unsigned long magic; char *token; };
#define MAGIC 0x1d9c0de5UL

idn_result_t
idn_resconf_initialize (void)
{
    vadapt_initializes++;
    return idn_success;
}

idn_result_t
idn_resconf_create (idn_resconf_t *ctxp)
{
    struct vadapt_resconf *c = malloc (sizeof *c);
    if (c == NULL) return idn_nomemory;
    c->magic = MAGIC;
    c->token = malloc (24);
    if (c->token == NULL) { free (c); return idn_nomemory; }
    strcpy (c->token, "idnkit-context");
    *ctxp = c;
    vadapt_creates++;
    return idn_success;
}

void
idn_resconf_destroy (idn_resconf_t ctx)
{
    if (ctx == NULL || ctx->magic != MAGIC) {
        fprintf (stderr, "VADAPT: idn_resconf_destroy of a context that is not live\n");
        abort ();
    }
    ctx->magic = 0;
    free (ctx->token);
    free (ctx);
    vadapt_destroys++;
}

idn_result_t
idn_res_encodename (idn_resconf_t ctx, idn_action_t actions, const char *from, char *to, size_t tolen)
{
    char *out = NULL;
    int rc;
    (void) actions;
    if (ctx == NULL || ctx->magic != MAGIC) {
        fprintf (stderr, "VADAPT: idn_res_encodename with a context that is not live\n");
        abort ();
    }
    vadapt_encodes++;
    rc = idn2_to_ascii_8z (from, &out, IDN2_NONTRANSITIONAL);
    if (rc != IDN2_OK) { if (out) idn2_free (out); return rc; }
    if (strlen (out) + 1 > tolen) { idn2_free (out); return idn_buffer_overflow; }
    strcpy (to, out);
    idn2_free (out);
    return idn_success;
}

const char *
idn_result_tostring (idn_result_t r)
{
    if (r == idn_buffer_overflow) return "buffer overflow";
    if (r == idn_nomemory) return "no memory";
    return idn2_strerror (r);
}
