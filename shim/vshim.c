/* vshim.c — compiled once per variant with exactly the variant's -D flags
 * (eav_t / eav_result_t layouts depend on HAVE_IDNKIT and EAV_EXTRA).
 * Uses only the public API of include/eav.h plus the TLD_TYPE_ names of
 * include/eav/auto_tld.h (which the README documents as result codes).       */
#include <stdio.h>
#include <stdlib.h>
#include <string.h>
#include <limits.h>
#include <eav.h>
#include <eav/auto_tld.h>
#include "vshim.h"

#ifndef VPREFIX
#error "VPREFIX must be defined"
#endif
#define CAT2(a,b) a##b
#define CAT(a,b) CAT2(a,b)
#define STR2(a) #a
#define STR(a) STR2(a)

static const EAV_RFC modes[4] = { EAV_RFC_822, EAV_RFC_5321, EAV_RFC_5322, EAV_RFC_6531 };

static void
fill_result (v_outcome *o, const eav_result_t *r)
{
    o->has_result = r != NULL;
    o->is_ipv4 = o->is_ipv6 = o->is_domain = 0;
    o->rc = 0; o->idn_rc = 0;
    o->lpart_null = o->domain_null = 1;
    o->lpart_len = o->domain_len = 0;
#ifdef EAV_EXTRA
    o->has_extra = 1;
#else
    o->has_extra = 0;
#endif
    if (r == NULL) return;
    o->is_ipv4 = r->is_ipv4; o->is_ipv6 = r->is_ipv6; o->is_domain = r->is_domain;
    o->rc = r->rc; o->idn_rc = (int) r->idn_rc;
#ifdef EAV_EXTRA
    if (r->lpart != NULL) {
        size_t n = strlen (r->lpart);
        o->lpart_null = 0; o->lpart_len = (int) n;
        memcpy (o->lpart, r->lpart, n < V_LPART_MAX ? n : V_LPART_MAX);
    }
    if (r->domain != NULL) {
        size_t n = strlen (r->domain);
        o->domain_null = 0; o->domain_len = (int) n;
        memcpy (o->domain, r->domain, n < V_DOMAIN_MAX ? n : V_DOMAIN_MAX);
    }
#endif
}

static void
fill_errstr (v_outcome *o, const char *s)
{
    o->errstr_null = s == NULL;
    o->errstr[0] = 0;
    if (s != NULL) {
        strncpy (o->errstr, s, V_ERRSTR_MAX - 1);
        o->errstr[V_ERRSTR_MAX - 1] = 0;
    }
}

static int
v_part (int which, const char *s, const char *e, int tld, int *idn_rc)
{
    if (idn_rc) *idn_rc = 0;
    switch (which) {
    case VP_822_LOCAL:    return is_822_local (s, e);
    case VP_5321_LOCAL:   return is_5321_local (s, e);
    case VP_5322_LOCAL:   return is_5322_local (s, e);
    case VP_6531_LOCAL:   return is_6531_local (s, e);
    case VP_ASCII_DOMAIN: return is_ascii_domain (s, e);
    case VP_IPV4:         return is_ipv4 (s, e);
    case VP_IPV6:         return is_ipv6 (s, e);
    case VP_IPADDR:       return is_ipaddr (s, e);
    case VP_TLD:          return is_tld (s, e);
    case VP_SPECIAL:      return is_special_domain (s, e);
    case VP_UTF8_DOMAIN: {
#ifdef HAVE_IDNKIT
        idn_resconf_t ctx; idn_result_t r = idn_success; int rc;
        if (idn_resconf_initialize () != idn_success) abort ();
        if (idn_resconf_create (&ctx) != idn_success) abort ();
        rc = is_utf8_domain (ctx, IDN_ENCODE_REGIST, &r, s, e, tld != 0);
        idn_resconf_destroy (ctx);
        if (idn_rc) *idn_rc = (int) r;
        return rc;
#else
        int r = 0;
        int rc = is_utf8_domain (&r, s, e, tld != 0);
        if (idn_rc) *idn_rc = r;
        return rc;
#endif
    }
    }
    abort ();
}

static void
v_email_direct (int mode, const char *s, size_t n, int tld, v_outcome *o)
{
    eav_result_t *r = NULL;
    memset (o, 0, sizeof *o);
    switch (mode) {
    case 0: r = is_822_email (s, n, tld != 0); break;
    case 1: r = is_5321_email (s, n, tld != 0); break;
    case 2: r = is_5322_email (s, n, tld != 0); break;
    case 3: {
#ifdef HAVE_IDNKIT
        idn_resconf_t ctx;
        if (idn_resconf_initialize () != idn_success) abort ();
        if (idn_resconf_create (&ctx) != idn_success) abort ();
        r = is_6531_email (ctx, IDN_ENCODE_REGIST, s, n, tld != 0);
        idn_resconf_destroy (ctx);
#else
        r = is_6531_email (s, n, tld != 0);
#endif
    } break;
    default: abort ();
    }
    fill_result (o, r);
    o->ret = -1; o->errcode = -1; o->errstr_null = 1;
    eav_result_free (r);
}

static size_t v_obj_size (void) { return sizeof (eav_t); }
static void v_obj_init (void *p) { eav_init ((eav_t *) p); }
static int  v_obj_setup (void *p) { return eav_setup ((eav_t *) p); }
static void v_obj_free (void *p) { eav_free ((eav_t *) p); }
static void v_obj_set_mode (void *p, int m) { ((eav_t *) p)->rfc = modes[m & 3]; }
static void v_obj_set_rfc_raw (void *p, int raw) { ((eav_t *) p)->rfc = (EAV_RFC) raw; }
static void v_obj_set_tld (void *p, int t) { ((eav_t *) p)->tld_check = t != 0; }
static void v_obj_set_allow (void *p, int a) { ((eav_t *) p)->allow_tld = a; }
static void v_obj_get (void *p, int *rfc, int *t, int *a)
{
    eav_t *e = (eav_t *) p;
    *rfc = (int) e->rfc; *t = e->tld_check; *a = e->allow_tld;
}

static void
v_obj_errstr (void *p, v_outcome *o)
{
    fill_errstr (o, eav_errstr ((eav_t *) p));
}

static int
v_obj_is_email (void *p, const char *s, size_t n, v_outcome *o)
{
    eav_t *e = (eav_t *) p;
    int ret;
    memset (o, 0, sizeof *o);
    ret = eav_is_email (e, s, n);
    fill_result (o, e->result);
    o->ret = ret;
    o->errcode = e->errcode;
    fill_errstr (o, eav_errstr (e));
    return ret;
}

static int v_obj_result_null (void *p) { return ((eav_t *) p)->result == NULL; }

/* C08: caller-installed callback (the public utf8_cb / ascii_cb fields) */
static int cb_rc;

static eav_result_t *
mk_result (void)
{
    eav_result_t *r = malloc (sizeof *r);
    if (r == NULL) abort ();
    memset (r, 0, sizeof *r);
    r->rc = cb_rc;
    return r;
}

static eav_result_t *
cb_ascii (const char *s, size_t n, bool t)
{
    (void) s; (void) n; (void) t;
    return mk_result ();
}

#ifdef HAVE_IDNKIT
static eav_result_t *
cb_utf8 (idn_resconf_t c, idn_action_t a, const char *s, size_t n, bool t)
{
    (void) c; (void) a; (void) s; (void) n; (void) t;
    return mk_result ();
}
#else
static eav_result_t *
cb_utf8 (const char *s, size_t n, bool t)
{
    (void) s; (void) n; (void) t;
    return mk_result ();
}
#endif

static void
v_obj_install_cb (void *p, int rc)
{
    eav_t *e = (eav_t *) p;
    cb_rc = rc;
    e->ascii_cb = cb_ascii;
    e->utf8_cb = cb_utf8;
}

#define K(x) { #x, x }
static const struct { const char *n; int v; } ktab[] = {
    K(EEAV_NO_ERROR), K(EEAV_INVALID_RFC), K(EEAV_IDN_ERROR), K(EEAV_EMAIL_EMPTY),
    K(EEAV_LPART_EMPTY), K(EEAV_LPART_TOO_LONG), K(EEAV_LPART_NOT_ASCII),
    K(EEAV_LPART_SPECIAL), K(EEAV_LPART_CTRL_CHAR), K(EEAV_LPART_MISPLACED_QUOTE),
    K(EEAV_LPART_UNQUOTED), K(EEAV_LPART_TOO_MANY_DOTS), K(EEAV_LPART_MISPLACED_DOT),
    K(EEAV_LPART_UNQUOTED_FWS), K(EEAV_LPART_INVALID_FOLDING), K(EEAV_LPART_INVALID_UTF8),
    K(EEAV_DOMAIN_EMPTY), K(EEAV_DOMAIN_LABEL_TOO_LONG), K(EEAV_DOMAIN_MISPLACED_HYPHEN),
    K(EEAV_DOMAIN_MISPLACED_DELIMITER), K(EEAV_DOMAIN_INVALID_CHAR), K(EEAV_DOMAIN_TOO_LONG),
    K(EEAV_DOMAIN_NUMERIC), K(EEAV_DOMAIN_NOT_FQDN), K(EEAV_IPADDR_INVALID),
    K(EEAV_IPADDR_BRACKET_UNPAIR), K(EEAV_TLD_INVALID), K(EEAV_TLD_NOT_ASSIGNED),
    K(EEAV_TLD_COUNTRY_CODE), K(EEAV_TLD_GENERIC), K(EEAV_TLD_GENERIC_RESTRICTED),
    K(EEAV_TLD_INFRASTRUCTURE), K(EEAV_TLD_SPONSORED), K(EEAV_TLD_TEST),
    K(EEAV_TLD_SPECIAL), K(EEAV_TLD_RETIRED), K(EEAV_MAX),
    K(TLD_TYPE_NOT_ASSIGNED), K(TLD_TYPE_COUNTRY_CODE), K(TLD_TYPE_GENERIC),
    K(TLD_TYPE_GENERIC_RESTRICTED), K(TLD_TYPE_INFRASTRUCTURE), K(TLD_TYPE_SPONSORED),
    K(TLD_TYPE_TEST), K(TLD_TYPE_SPECIAL), K(TLD_TYPE_RETIRED),
    K(EAV_TLD_INVALID), K(EAV_TLD_NOT_ASSIGNED), K(EAV_TLD_COUNTRY_CODE),
    K(EAV_TLD_GENERIC), K(EAV_TLD_GENERIC_RESTRICTED), K(EAV_TLD_INFRASTRUCTURE),
    K(EAV_TLD_SPONSORED), K(EAV_TLD_TEST), K(EAV_TLD_SPECIAL), K(EAV_TLD_RETIRED),
    K(EAV_RFC_822), K(EAV_RFC_5321), K(EAV_RFC_5322), K(EAV_RFC_6531),
};

static int
v_konst (const char *name)
{
    for (size_t i = 0; i < sizeof ktab / sizeof ktab[0]; i++)
        if (strcmp (ktab[i].n, name) == 0)
            return ktab[i].v;
    return INT_MIN;
}

const vapi CAT(VPREFIX, _api) = {
    STR(VPREFIX),
#ifdef EAV_EXTRA
    1,
#else
    0,
#endif
#if defined HAVE_LIBIDN2
    2,
#elif defined HAVE_LIBIDN
    1,
#else
    3,
#endif
    v_part, v_email_direct, v_obj_size, v_obj_init, v_obj_setup, v_obj_free,
    v_obj_set_mode, v_obj_set_rfc_raw, v_obj_set_tld, v_obj_set_allow, v_obj_get,
    v_obj_is_email, v_obj_errstr, v_obj_result_null, v_obj_install_cb, v_konst
};
