/* vshim.h — the only interface between the harnesses and a libeav build variant.
 * Plain C ABI (ints and byte buffers); nothing here depends on /repo headers, so
 * harness objects are compiled once and linked against freshly built variants.
 * Every variant object exports exactly one global symbol: `<prefix>_api`.       */
#ifndef VSHIM_H
#define VSHIM_H
#include <stddef.h>
#ifdef __cplusplus
extern "C" {
#endif

#define V_LPART_MAX 128
#define V_DOMAIN_MAX 512
#define V_ERRSTR_MAX 256

typedef struct v_outcome {
    int ret, errcode, rc, idn_rc;
    int is_ipv4, is_ipv6, is_domain, has_result;
    int errstr_null;
    char errstr[V_ERRSTR_MAX];
    int has_extra;              /* variant built with EAV_EXTRA */
    int lpart_null, domain_null;
    int lpart_len, domain_len;  /* full lengths, copies below may be truncated */
    unsigned char lpart[V_LPART_MAX], domain[V_DOMAIN_MAX];
} v_outcome;

enum { VP_822_LOCAL, VP_5321_LOCAL, VP_5322_LOCAL, VP_6531_LOCAL,
       VP_ASCII_DOMAIN, VP_UTF8_DOMAIN, VP_IPV4, VP_IPV6, VP_IPADDR,
       VP_TLD, VP_SPECIAL };

/* modes are given as indexes 0..3 = 822, 5321, 5322, 6531 (order of the EAV_RFC
 * names is looked up by name inside the shim, never assumed by the harness) */
typedef struct vapi {
    const char *name;
    int has_extra;
    int backend;               /* 2 = libidn2, 1 = libidn, 3 = idnkit */
    /* per-part validators; `e` is the end pointer handed to the library */
    int (*part)(int which, const char *s, const char *e, int tld, int *idn_rc);
    /* is_<mode>_email called directly */
    void (*email_direct)(int mode, const char *s, size_t n, int tld, v_outcome *o);
    /* eav_t life cycle; the harness owns the memory block */
    size_t (*obj_size)(void);
    void (*obj_init)(void *);
    int  (*obj_setup)(void *);
    void (*obj_free)(void *);
    void (*obj_set_mode)(void *, int mode);     /* mode index 0..3 */
    void (*obj_set_rfc_raw)(void *, int raw);   /* any int */
    void (*obj_set_tld)(void *, int tld_check);
    void (*obj_set_allow)(void *, int allow_tld);
    void (*obj_get)(void *, int *rfc_raw, int *tld_check, int *allow_tld);
    int  (*obj_is_email)(void *, const char *, size_t, v_outcome *);
    void (*obj_errstr)(void *, v_outcome *);
    int  (*obj_result_null)(void *);
    /* C08: replace both callbacks by one returning a record with rc = `rc` */
    void (*obj_install_cb)(void *, int rc);
    /* value of an EEAV_ / TLD_TYPE_ / EAV_TLD_ / EAV_RFC_ name, or INT_MIN */
    int  (*konst)(const char *name);
} vapi;

#ifdef __cplusplus
}
#endif
#endif
