/* vg_replay.c — C06, uninitialised-read clause: replays generated inputs through every
 * public entry point of an UNinstrumented (plain) build under valgrind memcheck, with each
 * eav_t taken from malloc and never cleared, so that a field eav_init forgets to set is
 * an "uninitialised value" report in the library.  Real libidn2 is in the loop.
 * usage: vg_replay <inputs.hex> <progress-file> [first] [step]                          */
#include <stdio.h>
#include <stdlib.h>
#include <string.h>
#include "../shim/vshim.h"

extern const vapi plain_api, pextra_api;

static size_t unhex(const char *h, char *out) {
    size_t n = 0;
    for (; h[0] && h[1] && h[0] != '\n'; h += 2) {
        int a = h[0] <= '9' ? h[0] - '0' : (h[0] | 32) - 'a' + 10, b = h[1] <= '9' ? h[1] - '0' : (h[1] | 32) - 'a' + 10;
        out[n++] = (char) (a * 16 + b);
    }
    return n;
}

static unsigned long sink;

static void one(const vapi *A, const char *s, size_t n) {
    v_outcome o;
    for (int m = 0; m < 4; m++) for (int t = 0; t < 2; t++) {
        void *e = malloc(A->obj_size());        /* uninitialised heap block */
        A->obj_init(e);
        A->obj_set_mode(e, m); A->obj_set_tld(e, t);
        if (A->obj_setup(e) != 0) abort();
        A->obj_is_email(e, s, n, &o); sink += (unsigned long) o.ret + strlen(o.errstr);
        A->obj_is_email(e, s, n, &o); sink += (unsigned long) o.errcode;      /* second call: previous record released */
        A->obj_errstr(e, &o); sink += strlen(o.errstr);
        A->obj_free(e);
        free(e);
        A->email_direct(m, s, n, t, &o); sink += (unsigned long) o.rc;
    }
    {   /* eav_errstr / eav_free right after eav_init (no validation yet) */
        void *e = malloc(A->obj_size()); A->obj_init(e); A->obj_errstr(e, &o); sink += strlen(o.errstr); A->obj_free(e); free(e);
    }
    const char *e = s + n, *at = NULL; for (const char *q = s; q < e; q++) if (*q == '@') at = q;
    const char *d = at ? at + 1 : s; int ir;
    for (int w = VP_822_LOCAL; w <= VP_6531_LOCAL; w++) sink += (unsigned long) A->part(w, s, at ? at : e, 0, NULL);
    sink += (unsigned long) A->part(VP_ASCII_DOMAIN, d, e, 0, NULL) + (unsigned long) A->part(VP_UTF8_DOMAIN, d, e, 1, &ir) + (unsigned long) A->part(VP_IPADDR, d, e, 0, NULL) +
            (unsigned long) A->part(VP_TLD, d, e, 0, NULL) + (unsigned long) A->part(VP_SPECIAL, d, e, 0, NULL);
}

int main(int argc, char **argv) {
    if (argc < 3) return 2;
    FILE *f = fopen(argv[1], "r"), *pr = fopen(argv[2], "w");
    long first = argc > 3 ? atol(argv[3]) : 0, step = argc > 4 ? atol(argv[4]) : 1, idx = 0, done = 0;
    if (!f || !pr) return 2;
    char *line = NULL; size_t cap = 0; ssize_t r;
    while ((r = getline(&line, &cap, f)) != -1) {
        if ((idx++ - first) % step != 0 || idx - 1 < first) continue;
        char *buf = malloc((size_t) r / 2 + 2);
        size_t n = unhex(line, buf); buf[n] = 0;
        if (memchr(buf, 0, n)) { free(buf); continue; }
        fprintf(pr, "%ld\n", idx - 1); fflush(pr);
        one(&plain_api, buf, n);
        one(&pextra_api, buf, n);
        free(buf); done++;
    }
    free(line); fclose(f); fprintf(pr, "done %ld\n", done); fclose(pr);
    return sink == 0xdeadbeefUL ? 3 : 0;
}
