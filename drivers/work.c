/* work.c — C06, linear-time clause: deterministic instruction counts under callgrind.
 * For every (entry point, input shape) the same call is made for growing n; each call is
 * bracketed by CALLGRIND_ZERO_STATS / CALLGRIND_DUMP_STATS_AT, so one valgrind run yields
 * one dump per (entry, shape, n).  The IDN converter is replaced by a pass-through
 * (vfault_to_ascii_8z below, reached through objcopy --redefine-sym) so that the IDN
 * library's own complexity is not attributed to libeav.
 * usage: work <first> <step> <n1,n2,...>                                                  */
#include <stdio.h>
#include <stdlib.h>
#include <string.h>
#include <valgrind/callgrind.h>
#include "../shim/vshim.h"

extern const vapi pfault_api;

int vfault_to_ascii_8z(const char *in, char **out, int flags) {
    (void) flags;
    *out = strdup(in);
    return *out ? 0 : -100;
}

#define NSHAPES 22
static char *shape(int k, size_t n) {
    char *s = malloc(n + 16); size_t i = 0;
    memset(s, 0, n + 16);
    switch (k) {
    case 0: memset(s, '@', n); break;
    case 1: memset(s, '.', n); break;
    case 2: memset(s, '"', n); break;
    case 3: for (i = 0; i < n; i++) s[i] = (i % 2) ? '.' : 'a'; break;
    case 4: strcpy(s, "a@["); for (i = 3; i < n; i++) s[i] = (i % 5 == 0) ? ':' : (char) ('0' + i % 10); break;
    case 5: strcpy(s, "a@"); for (i = 2; i < n; i++) s[i] = 'l'; break;
    case 6: for (i = 0; i + 2 <= n; i += 2) { s[i] = (char) 0xD0; s[i + 1] = (char) 0x96; } break;
    case 7: s[0] = '"'; for (i = 1; i + 8 < n; i++) s[i] = (i % 3) ? ' ' : 'q'; strcpy(s + (n > 8 ? n - 8 : 1), "\"@x.com"); break;
    case 8: memset(s, 'a', n); break;
    case 9: for (i = 0; i < n; i++) s[i] = (i % 8 == 7) ? '.' : 'e'; break;
    case 10: s[0] = '"'; for (i = 1; i + 1 < n; i++) s[i] = (i % 2) ? '\\' : 'x'; if (n > 1) s[n - 1] = '"'; break;
    case 11: for (i = 0; i < n; i++) s[i] = "example."[i % 8]; break;
    case 12: for (i = 0; i < n; i++) s[i] = (i % 2) ? ':' : '1'; break;
    case 13: for (i = 0; i < n; i++) s[i] = (i % 2) ? '.' : '1'; break;
    case 14: s[0] = '"'; for (i = 1; i + 1 < n; i++) s[i] = "\r\n "[(i - 1) % 3]; if (n > 1) s[n - 1] = '"'; break;
    case 15: for (i = 0; i < n; i++) s[i] = (i % 64 == 63) ? '.' : 'b'; break;
    /* adversaries for the span sets of strspn/strchr-style helpers */
    case 16: for (i = 0; i < n; i++) s[i] = (i % 2) ? '.' : '0'; break;
    case 17: memset(s, '0', n); break;
    case 18: for (i = 0; i < n; i++) s[i] = "0123456789abcdefABCDEF"[i % 22]; break;
    case 19: for (i = 0; i < n; i++) s[i] = (i % 4 == 3) ? '.' : '0'; break;
    case 20: for (i = 0; i < n; i++) s[i] = (i % 5 == 4) ? ':' : 'f'; break;
    case 21: strcpy(s, "a@["); for (i = 3; i + 1 < n; i++) s[i] = (i % 2) ? '.' : '0'; if (n > 4) s[n - 1] = ']'; break;
    }
    for (i = 0; i < n; i++) if (s[i] == 0) s[i] = 'z';
    s[n] = 0;
    return s;
}

#define NENTRIES 19
static unsigned long sink;
static void *objs[4];

static void call(int entry, const char *s, size_t n) {
    v_outcome o; int ir;
    const vapi *A = &pfault_api;
    if (entry < 11) { sink += (unsigned long) A->part(entry, s, s + n, 1, &ir); return; }
    if (entry < 15) { A->email_direct(entry - 11, s, n, 1, &o); sink += (unsigned long) o.rc; return; }
    A->obj_is_email(objs[entry - 15], s, n, &o); sink += (unsigned long) o.ret;
}

int main(int argc, char **argv) {
    if (argc < 4) return 2;
    long first = atol(argv[1]), step = atol(argv[2]), idx = 0;
    size_t sizes[16]; int ns = 0;
    for (char *t = strtok(argv[3], ","); t && ns < 16; t = strtok(NULL, ",")) sizes[ns++] = (size_t) atol(t);
    const vapi *A = &pfault_api;
    for (int m = 0; m < 4; m++) { objs[m] = malloc(A->obj_size()); A->obj_init(objs[m]); A->obj_set_mode(objs[m], m); if (A->obj_setup(objs[m]) != 0) return 2; }
    for (int e = 0; e < NENTRIES; e++) for (int k = 0; k < NSHAPES; k++) {
        if ((idx++ - first) % step != 0 || idx - 1 < first) continue;
        for (int i = 0; i < ns; i++) {
            char *s = shape(k, sizes[i]);
            char tag[64]; snprintf(tag, sizeof tag, "e%d_k%d_n%zu", e, k, sizes[i]);
            call(e, s, sizes[i]);                 /* warm-up: lazy binding, first-use allocations */
            CALLGRIND_ZERO_STATS;
            call(e, s, sizes[i]);
            CALLGRIND_DUMP_STATS_AT(tag);
            free(s);
        }
    }
    for (int m = 0; m < 4; m++) { A->obj_free(objs[m]); free(objs[m]); }
    return sink == 0xdeadbeefUL ? 3 : 0;
}
