// ref.hpp — reference recognisers written from the property statements
// (/verif/properties.jsonl) and the RFC grammars they cite; nothing here is
// derived from, or calls into, libeav.
#pragma once
#include <cstdint>
#include <string>
#include <vector>
#include <map>
#include <fstream>
#include <cctype>

namespace ref {

using Bytes = std::string;
enum Mode { M822 = 0, M5321 = 1, M5322 = 2, M6531 = 3 };
static const char *const MODE_NAME[4] = {"822", "5321", "5322", "6531"};

// ---------------------------------------------------------------- UTF-8 (RFC 3629, strict)
inline bool utf8_decode(const Bytes &b, std::vector<uint32_t> &cps) {
    cps.clear();
    size_t i = 0, n = b.size();
    auto cont = [&](size_t k) { return k < n && ((unsigned char) b[k] & 0xC0) == 0x80; };
    while (i < n) {
        unsigned char c = b[i];
        if (c < 0x80) { cps.push_back(c); i++; }
        else if (c >= 0xC2 && c <= 0xDF) {
            if (!cont(i + 1)) return false;
            cps.push_back(((c & 0x1F) << 6) | (b[i + 1] & 0x3F)); i += 2;
        } else if (c >= 0xE0 && c <= 0xEF) {
            if (!cont(i + 1) || !cont(i + 2)) return false;
            uint32_t r = ((c & 0x0F) << 12) | ((b[i + 1] & 0x3F) << 6) | (b[i + 2] & 0x3F);
            if (r < 0x800 || (r >= 0xD800 && r <= 0xDFFF)) return false;
            cps.push_back(r); i += 3;
        } else if (c >= 0xF0 && c <= 0xF4) {
            if (!cont(i + 1) || !cont(i + 2) || !cont(i + 3)) return false;
            uint32_t r = ((c & 0x07) << 18) | ((b[i + 1] & 0x3F) << 12) | ((b[i + 2] & 0x3F) << 6) | (b[i + 3] & 0x3F);
            if (r < 0x10000 || r > 0x10FFFF) return false;
            cps.push_back(r); i += 4;
        } else return false; // 80..C1 (stray continuation, overlong lead), F5..FF
    }
    return true;
}
inline bool utf8_ok(const Bytes &b) { std::vector<uint32_t> c; return utf8_decode(b, c); }
inline Bytes utf8_encode(uint32_t c) {
    Bytes o;
    if (c < 0x80) o += char(c);
    else if (c < 0x800) { o += char(0xC0 | (c >> 6)); o += char(0x80 | (c & 0x3F)); }
    else if (c < 0x10000) { o += char(0xE0 | (c >> 12)); o += char(0x80 | ((c >> 6) & 0x3F)); o += char(0x80 | (c & 0x3F)); }
    else { o += char(0xF0 | (c >> 18)); o += char(0x80 | ((c >> 12) & 0x3F)); o += char(0x80 | ((c >> 6) & 0x3F)); o += char(0x80 | (c & 0x3F)); }
    return o;
}
inline bool pure_ascii(const Bytes &b) { for (unsigned char c : b) if (c >= 0x80) return false; return true; }

// ---------------------------------------------------------------- local parts (C02, C03)
struct LocalOpts { bool rfc20 = false; bool follow5322 = false; };

inline bool is_special(uint32_t c) {
    switch (c) { case '(': case ')': case '<': case '>': case '@': case ',': case ';': case ':':
                 case '\\': case '"': case '.': case '[': case ']': return true; }
    return false;
}
inline bool is_rfc20(uint32_t c) { return c == '#' || c == '^' || c == '`' || c == '{' || c == '|' || c == '}' || c == '~'; }
inline bool is_ws(uint32_t c) { return c == ' ' || c == '\t' || c == '\r' || c == '\n'; }
inline bool is_ctl(uint32_t c) { return c < 0x20 || c == 0x7f; }

inline bool atext(uint32_t c, Mode m, const LocalOpts &o) {
    if (c >= 0x80) return m == M6531;
    if (c < 0x21 || c > 0x7e) return false;
    if (is_special(c)) return false;
    if (m == M6531 && o.rfc20 && is_rfc20(c)) return false;
    return true;
}

// word *("." word); word = atom / quoted-string, quoted content per mode.
inline bool local_ok(Mode m, const Bytes &b, const LocalOpts &o = LocalOpts()) {
    std::vector<uint32_t> cp;
    if (m == M6531) { if (!utf8_decode(b, cp)) return false; }
    else { for (unsigned char c : b) { if (c >= 0x80) return false; cp.push_back(c); } }
    size_t n = cp.size();
    if (n == 0) return false;
    int q = (m == M6531) ? (o.follow5322 ? (int) M5322 : (int) M5321) : (int) m; // quoted-content rules
    enum { W0, AT, CQ, Q, QE, QCR, QCRLF } st = W0;
    for (size_t i = 0; i < n; i++) {
        uint32_t c = cp[i];
        switch (st) {
        case W0: if (c == '"') st = Q; else if (atext(c, m, o)) st = AT; else return false; break;
        case AT: if (c == '.') st = W0; else if (atext(c, m, o)) st = AT; else return false; break;
        case CQ: if (c == '.') st = W0; else return false; break;
        case Q:
            if (c >= 0x80) break;                       // UTF8-non-ascii is qtext (6531 only)
            if (c == '"') { st = CQ; break; }
            if (c == '\\') { st = QE; break; }
            if (q == M5321) { if (is_ctl(c)) return false; }
            else if (q == M822) { if (c == '\r') st = QCR; }
            else { /* 5322: unescaped SP/HT/CR/LF only next to a DQUOTE or another whitespace */
                if (is_ws(c)) {
                    uint32_t pv = cp[i - 1];
                    bool ok = pv == '"' || is_ws(pv);
                    if (!ok && i + 1 < n) { uint32_t nx = cp[i + 1]; ok = nx == '"' || is_ws(nx); }
                    else if (!ok) ok = true;            // last character: rejected below as open quote
                    if (!ok) return false;
                }
            }
            break;
        case QE:
            if (c >= 0x80) return false;                // never a legal escape target
            if (q == M5321 && is_ctl(c)) return false;  // quoted-pairSMTP = %d92 %d32-126
            st = Q; break;
        case QCR: if (c == '\n') st = QCRLF; else return false; break;
        case QCRLF: if (c == ' ' || c == '\t') st = Q; else return false; break;
        }
    }
    return st == AT || st == CQ;
}

// Does the local part have one of the RFC 20 characters outside quotes?
// (tracker only meaningful for strings that are valid without the rfc20 option)
inline bool rfc20_outside_quotes(const Bytes &b) {
    bool inq = false, esc = false;
    for (unsigned char c : b) {
        if (inq) { if (esc) esc = false; else if (c == '\\') esc = true; else if (c == '"') inq = false; }
        else if (c == '"') inq = true;
        else if (is_rfc20(c)) return true;
    }
    return false;
}
// quoted whitespace / control present (scope rule of C17 for the RFC5322 option)
inline bool has_quoted_ws_or_ctl(const Bytes &b) {
    bool inq = false, esc = false;
    for (unsigned char c : b) {
        if (inq) {
            if (c < 0x80 && (is_ws(c) || is_ctl(c))) return true;
            if (esc) esc = false; else if (c == '\\') esc = true; else if (c == '"') inq = false;
        } else if (c == '"') inq = true;
    }
    return false;
}

// ---------------------------------------------------------------- host names (C04)
inline std::vector<Bytes> split_labels(const Bytes &d) {
    std::vector<Bytes> v; Bytes cur;
    for (char c : d) { if (c == '.') { v.push_back(cur); cur.clear(); } else cur += c; }
    v.push_back(cur);
    return v;
}
inline bool host_ok(const Bytes &d, bool underscore = false) {
    if (d.empty()) return false;
    Bytes h = d;
    if (h.size() >= 2 && h.back() == '.') h.pop_back(); // exactly one root dot
    if (h.size() > 253) return false;
    bool nonnum = false;
    for (const Bytes &l : split_labels(h)) {
        if (l.empty() || l.size() > 63) return false;
        for (unsigned char c : l) {
            bool al = (c < 0x80 && isalnum(c)) || (underscore && c == '_');
            if (!al && c != '-') return false;
            if (!(c >= '0' && c <= '9')) nonnum = true;
        }
        if (l.front() == '-' || l.back() == '-') return false;
    }
    return nonnum;
}

// ---------------------------------------------------------------- address literals (C05)
inline bool hexgroup(const Bytes &g) {
    if (g.empty() || g.size() > 4) return false;
    for (unsigned char c : g) if (!isxdigit(c)) return false;
    return true;
}
// dotted quad; strict: 1-3 digits per octet (RFC 5321 Snum); loose: any number of digits, value <= 255
inline bool quad(const Bytes &s, bool strict, int *first = nullptr) {
    std::vector<Bytes> p = split_labels(s);
    if (p.size() != 4) return false;
    for (size_t k = 0; k < 4; k++) {
        const Bytes &o = p[k];
        if (o.empty()) return false;
        if (strict && o.size() > 3) return false;
        long v = 0;
        for (unsigned char c : o) { if (c < '0' || c > '9') return false; v = v * 10 + (c - '0'); if (v > 255) return false; }
        if (k == 0 && first) *first = (int) v;
    }
    return true;
}
inline std::vector<Bytes> split_colon(const Bytes &s) {
    std::vector<Bytes> v; Bytes cur;
    for (char c : s) { if (c == ':') { v.push_back(cur); cur.clear(); } else cur += c; }
    v.push_back(cur);
    return v;
}
// groups of a colon separated run ("" -> 0 groups); last element may be a quad when allow_quad
// returns -1 when malformed, else group count (quad counts as 2); *had_quad / *qfirst set
inline int count_groups(const Bytes &s, bool allow_quad, bool strict_quad, bool *had_quad, int *qfirst) {
    if (s.empty()) return 0;
    std::vector<Bytes> g = split_colon(s);
    int n = 0;
    for (size_t k = 0; k < g.size(); k++) {
        if (k + 1 == g.size() && allow_quad && g[k].find('.') != Bytes::npos) {
            if (!quad(g[k], strict_quad, qfirst)) return -1;
            *had_quad = true; n += 2;
        } else { if (!hexgroup(g[k])) return -1; n += 1; }
    }
    return n;
}
// RFC 4291 section 2.2 text form (upper bound)
inline bool ipv6_4291(const Bytes &s) {
    size_t p = s.find("::");
    bool hq = false; int qf = 0;
    if (p == Bytes::npos) { return count_groups(s, true, false, &hq, &qf) == 8; }
    if (s.find("::", p + 1) != Bytes::npos) return false; // second "::" (":::" included)
    Bytes l = s.substr(0, p), r = s.substr(p + 2);
    bool hq2 = false;
    int a = count_groups(l, false, false, &hq2, &qf), b = count_groups(r, true, false, &hq, &qf);
    if (a < 0 || b < 0) return false;
    return a + b <= 7;
}
// RFC 5321 section 4.1.3 IPv6-addr (lower bound); tail quad strict and first octet != 0
inline bool ipv6_5321(const Bytes &s) {
    size_t p = s.find("::");
    bool hq = false; int qf = -1;
    if (p == Bytes::npos) {
        int n = count_groups(s, true, true, &hq, &qf);
        if (n != 8) return false;
        return !hq || qf != 0;
    }
    if (s.find("::", p + 1) != Bytes::npos) return false;
    Bytes l = s.substr(0, p), r = s.substr(p + 2);
    bool hq2 = false;
    int a = count_groups(l, false, true, &hq2, &qf), b = count_groups(r, true, true, &hq, &qf);
    if (a < 0 || b < 0) return false;
    if (hq) { // IPv6v4-comp: at most 4 hex groups in addition to "::" and the quad
        if (a + (b - 2) > 4) return false;
        return qf != 0;
    }
    return a + b <= 6; // IPv6-comp
}
struct Lit { bool lower = false, upper = false; int family = 0; /* 4 / 6 by the upper-bound parse */ };
inline bool has_tag(const Bytes &c, bool anycase) {
    if (c.size() < 5) return false;
    const char *t = "IPv6:";
    for (int k = 0; k < 5; k++) {
        char x = c[k];
        if (anycase ? (tolower((unsigned char) x) != tolower((unsigned char) t[k])) : (x != t[k])) return false;
    }
    return true;
}
inline Lit literal(const Bytes &d) {
    Lit L;
    if (d.size() < 2 || d[0] != '[' || d.back() != ']') return L;
    Bytes c = d.substr(1, d.size() - 2);
    int f = -1;
    if (quad(c, false, &f)) { L.upper = true; L.family = 4; if (quad(c, true, &f) && f != 0) L.lower = true; return L; }
    Bytes a = has_tag(c, true) ? c.substr(5) : c;
    if (ipv6_4291(a)) { L.upper = true; L.family = 6; }
    if (has_tag(c, false) && ipv6_5321(c.substr(5))) L.lower = true;
    return L;
}

// ---------------------------------------------------------------- reserved domains (C09)
inline Bytes lower(const Bytes &s) { Bytes o = s; for (auto &c : o) if (c >= 'A' && c <= 'Z') c += 32; return o; }
inline bool reserved(const Bytes &domain) {
    std::vector<Bytes> l = split_labels(domain);
    if (l.empty()) return false;
    Bytes last = lower(l.back());
    if (last == "test" || last == "example" || last == "invalid" || last == "localhost" || last == "onion") return true;
    if (l.size() >= 2 && lower(l[l.size() - 2]) == "example" && (last == "com" || last == "net" || last == "org")) return true;
    return false;
}

// ---------------------------------------------------------------- TLD table from data/punycode.csv (C07, C11)
struct TldRow { Bytes domain, type, manager, cls; };
inline bool starts_ci(const Bytes &s, const char *p) {
    size_t n = strlen(p); if (s.size() < n) return false;
    for (size_t i = 0; i < n; i++) if (tolower((unsigned char) s[i]) != tolower((unsigned char) p[i])) return false;
    return true;
}
// minimal RFC 4180 reader (quoted fields, doubled quotes, embedded commas/newlines)
inline std::vector<std::vector<Bytes>> read_csv(const std::string &path) {
    std::vector<std::vector<Bytes>> rows;
    std::ifstream f(path, std::ios::binary);
    std::string all((std::istreambuf_iterator<char>(f)), std::istreambuf_iterator<char>());
    std::vector<Bytes> row; Bytes cur; bool inq = false, any = false;
    for (size_t i = 0; i < all.size(); i++) {
        char c = all[i];
        if (inq) {
            if (c == '"') { if (i + 1 < all.size() && all[i + 1] == '"') { cur += '"'; i++; } else inq = false; }
            else cur += c;
        } else if (c == '"') { inq = true; any = true; }
        else if (c == ',') { row.push_back(cur); cur.clear(); any = true; }
        else if (c == '\r') {}
        else if (c == '\n') { if (any || !cur.empty()) { row.push_back(cur); rows.push_back(row); } row.clear(); cur.clear(); any = false; }
        else { cur += c; any = true; }
    }
    if (any || !cur.empty()) { row.push_back(cur); rows.push_back(row); }
    return rows;
}
inline Bytes class_of_row(const Bytes &type, const Bytes &manager) {
    if (starts_ci(manager, "Not assigned")) return "NOT_ASSIGNED";
    if (starts_ci(manager, "Retired")) return "RETIRED";
    if (type == "generic") return "GENERIC";
    if (type == "country-code") return "COUNTRY_CODE";
    if (type == "generic-restricted") return "GENERIC_RESTRICTED";
    if (type == "infrastructure") return "INFRASTRUCTURE";
    if (type == "sponsored") return "SPONSORED";
    if (type == "test") return "TEST";
    return "?";
}
struct TldTable {
    std::vector<TldRow> rows;
    std::map<Bytes, Bytes> cls; // lower-case label -> class name
    bool load(const std::string &path) {
        auto r = read_csv(path);
        if (r.size() < 2) return false;
        for (size_t i = 1; i < r.size(); i++) {
            if (r[i].size() < 3) return false;
            TldRow t{r[i][0], r[i][1], r[i][2], class_of_row(r[i][1], r[i][2])};
            rows.push_back(t);
            cls[lower(t.domain)] = t.cls;
        }
        return true;
    }
    const Bytes *find(const Bytes &label) const { auto it = cls.find(lower(label)); return it == cls.end() ? nullptr : &it->second; }
};

} // namespace ref
