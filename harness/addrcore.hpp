// addrcore.hpp — shared evaluation of one address: reference facts about the
// input (split, per-part reference verdicts, A-label form, TLD class) and the
// library's outcomes in all four modes with TLD checking off and on, through
// eav_is_email and through is_<mode>_email.  C01, C12, C15, C16 (and others)
// apply their own relation to these.
#pragma once
#include "tldutil.hpp"
#include "gen.hpp"

namespace vf {

struct Facts {
    Bytes a, L, D;
    bool has_at = false; size_t at = 0;
    bool ascii = false, l_ascii = false, d_ascii = false;
    bool lref[4] = {false, false, false, false};   // reference local-part verdicts (default build)
    bool bracket = false; ref::Lit lit;
    bool host_ref = false;                          // ref::host_ok(D) (meaningful when D is ASCII)
    bool conv_ok = false; int conv_rc = 0; Bytes aform; bool aform_host = false;
    // TLD class of an ASCII host name: 0..8 class index, -1 unlisted, -2 single label (not FQDN)
    int cls = -9, cls_a = -9;                      // of D (ASCII modes) / of the A-label form (6531)
};

inline int tld_class(const Tlds &T, const Consts &C, const Bytes &d) {
    if (ref::reserved(d)) return 7;
    std::vector<Bytes> l = ref::split_labels(d);
    // a root dot leaves an empty last label: the statement quantifies over domains without root dot
    if (l.size() < 2) return -2;
    const Bytes *c = T.puny.find(l.back());
    return c ? C.idx(*c) : -1;
}

inline Facts facts(const Tlds &T, const Consts &C, const Bytes &a, bool underscore = false) {
    Facts f; f.a = a;
    size_t p = a.rfind('@');
    f.has_at = p != Bytes::npos; f.at = p;
    if (f.has_at) { f.L = a.substr(0, p); f.D = a.substr(p + 1); } else f.L = a;
    f.ascii = ref::pure_ascii(a); f.l_ascii = ref::pure_ascii(f.L); f.d_ascii = ref::pure_ascii(f.D);
    for (int m = 0; m < 4; m++) f.lref[m] = ref::local_ok((ref::Mode) m, f.L);
    f.bracket = !f.D.empty() && f.D[0] == '[';
    if (f.bracket) f.lit = ref::literal(f.D);
    else if (!f.D.empty()) {
        f.host_ref = f.d_ascii && ref::host_ok(f.D, underscore);
        ToAscii t = to_ascii(f.D); f.conv_rc = t.rc; f.conv_ok = t.rc == IDN2_OK; f.aform = t.out;
        f.aform_host = f.conv_ok && ref::host_ok(f.aform, underscore);
        if (f.host_ref) f.cls = tld_class(T, C, f.D);
        if (f.aform_host) f.cls_a = tld_class(T, C, f.aform);
    }
    return f;
}

struct Outs { v_outcome obj[4][2], dir[4][2], vet[4]; int mask[2]; };

class Core {
public:
    const vapi *A; Consts C; Tlds T; TailBuf TB{8192};
    Obj *o[4][2];
    Obj *vet[4];   // "veteran" objects: reach mode m (TLD checking on) through a history of other modes and refused eav_setup calls
    explicit Core(const vapi *a) : A(a), C(a) { for (auto &r : o) for (auto &x : r) x = nullptr; for (auto &x : vet) x = nullptr; }
    bool make_veteran(int m) {
        Obj *v = vet[m] = new Obj(A);
        auto setup = [&](int mode) { A->obj_set_mode(v->p, mode); return A->obj_setup(v->p) == 0; };
        auto refused = [&]() { A->obj_set_rfc_raw(v->p, 4242); (void) A->obj_setup(v->p); };
        if (!setup(m) || !setup(3)) return false;
        v->is_email("a@b.com"); v->is_email("a@\xE2\x99\xA5.de");
        refused();
        if (!setup(m < 3 ? (m + 1) % 3 : 0) || !setup(3)) return false;
        refused();
        if (!setup(3)) return false;
        v->is_email("\xD0\x96@b.com");
        A->obj_set_tld(v->p, 1);
        // ... and finally m -> 6531 -> m again (the callback of mode m is already installed when m is confirmed the last time)
        if (!setup(m) || !setup(3)) return false;
        v->is_email("a@b.com");
        return setup(m);
    }
    bool init(const std::string &datadir) {
        if (!T.load(datadir)) return false;
        for (int m = 0; m < 4; m++) for (int t = 0; t < 2; t++) { o[m][t] = new Obj(A); if (o[m][t]->configure(m, t) != 0) return false; }
        for (int m = 0; m < 4; m++) if (!make_veteran(m)) return false;
        return true;
    }
    ~Core() { for (auto &r : o) for (auto &x : r) delete x; for (auto &x : vet) delete x; }
    // mask: allow_tld used for the TLD-on objects (the TLD-off objects get ~mask to show it is irrelevant)
    Outs run(const Bytes &a, int mask) {
        Outs r; r.mask[0] = ~mask & 0x7ff; r.mask[1] = mask;
        for (int m = 0; m < 4; m++) for (int t = 0; t < 2; t++) {
            A->obj_set_allow(o[m][t]->p, r.mask[t]);
            r.obj[m][t] = o[m][t]->is_email_tail(TB, a);
            r.dir[m][t] = email_direct(A, TB, m, a, t);
        }
        for (int m = 0; m < 4; m++) { A->obj_set_allow(vet[m]->p, r.mask[1]); r.vet[m] = vet[m]->is_email_tail(TB, a); }
        return r;
    }
    int default_mask() const { return C.bit[1] | C.bit[2] | C.bit[3] | C.bit[4] | C.bit[5] | C.bit[7]; }
};

// the veteran object of mode m must give exactly the outcome of the dedicated one (sampled history independence / mode wiring)
inline std::string veteran_differs(const Outs &o, int m) {
    const v_outcome &x = o.vet[m], &y = o.obj[m][1];
    if (x.ret == y.ret && x.errcode == y.errcode && x.rc == y.rc && x.idn_rc == y.idn_rc && x.is_ipv4 == y.is_ipv4 && x.is_ipv6 == y.is_ipv6 && x.is_domain == y.is_domain && strcmp(x.errstr, y.errstr) == 0) return "";
    return std::string("an object that reached mode ") + ref::MODE_NAME[m] + " through other modes and refused eav_setup calls -> " + outcome_str(x) + ", a freshly set up one -> " + outcome_str(y);
}

// policy formula (C08) applied to a result code
inline void policy(const Consts &C, int rc, int mask, int *ret, int *errcode) {
    if (rc == 0) { *ret = 1; *errcode = C.E_NO_ERROR; return; }
    if (rc < 0) { *ret = 0; *errcode = -rc; return; }
    for (int k = 0; k < 9; k++) if (C.tld_type[k] == rc) { bool ok = (mask & C.bit[k]) != 0; *ret = ok; *errcode = ok ? C.E_NO_ERROR : C.eeav_tld[k]; return; }
    *ret = -1; *errcode = -1;
}

static const int LOCAL_PART_OF_MODE[4] = {VP_822_LOCAL, VP_5321_LOCAL, VP_5322_LOCAL, VP_6531_LOCAL};
// expected rc of is_<mode>_email by composition; *free_lit: literal between the bounds (0 or an IPADDR code)
inline int compose(Core &K, const Facts &f, int mode, int tld, bool *free_lit, bool *must_reject_lit) {
    const Consts &C = K.C; vf::K c(K.A);
    *free_lit = *must_reject_lit = false;
    if (f.a.empty()) return -c("EEAV_EMAIL_EMPTY");
    if (!f.has_at || f.D.empty()) return -c("EEAV_DOMAIN_EMPTY");
    if (f.L.size() > 64) return -c("EEAV_LPART_TOO_LONG");
    char *p = K.TB.place(f.a, 0);
    int rc = K.A->part(LOCAL_PART_OF_MODE[mode], p, p + f.at, 0, nullptr);
    if (rc != 0) return rc;
    const char *d = p + f.at + 1, *e = p + f.a.size();
    if (f.bracket) {
        if (f.lit.lower) return 0;
        if (!f.lit.upper) { *must_reject_lit = true; return -c("EEAV_IPADDR_INVALID"); }
        *free_lit = true; return 0;
    }
    if (mode == 3) return K.A->part(VP_UTF8_DOMAIN, d, e, tld, nullptr);
    rc = K.A->part(VP_ASCII_DOMAIN, d, e, 0, nullptr);
    if (rc != 0) return rc;
    if (!tld) return 0;
    if (K.A->part(VP_SPECIAL, d, e, 0, nullptr)) return C.tld_type[7];
    const char *dot = nullptr; for (const char *q = d; q < e; q++) if (*q == '.') dot = q;
    if (!dot) return -C.E_NOT_FQDN;
    return K.A->part(VP_TLD, dot + 1, e, 0, nullptr);
}


// Shared corpus of addresses: every non-comment line of the repository's data files.
inline std::vector<Bytes> corpus_lines(const std::string &datadir) {
    std::vector<Bytes> v;
    for (const char *fn : {"pass-email-ascii.txt", "fail-email-ascii.txt", "email-utf8.txt", "email-reg.ru.txt", "email-result-check.txt", "pass-email-ascii-slurp.txt",
                           "fail-email-ascii-slurp.txt", "domain-length.txt", "xn-dash-domains.txt", "underscore.txt", "retired.txt", "localpart-ascii.txt", "localpart-utf8.txt"}) {
        std::ifstream f(datadir + "/" + fn); std::string line;
        while (std::getline(f, line)) {
            if (!line.empty() && line.back() == '\r') line.pop_back();
            if (line.empty() || line[0] == '#' || line.find('\0') != std::string::npos) continue;
            v.push_back(line);
        }
    }
    return v;
}

// Address generator used by the shared-stream properties.
inline Bytes gen_address(Src &s, const Tlds &T, int *mode_hint = nullptr) {
    int mode = (int) s.pick(4); if (mode_hint) *mode_hint = mode;
    Bytes a = gen::addr_any(s, mode, &T.alist, &T.idn_u);
    for (auto &c : a) if (c == 0) c = 1;
    return a;
}

} // namespace vf
