// litshapes.hpp — enumerated address-literal texts ("[...]" with whatever surrounds it), shared by every property
// whose quantifier includes the literals generated for C05.  `go(text)` returns false to stop.
#pragma once
#include "common.hpp"

namespace vf {
namespace lit {
inline Bytes grp(int w, int i) { static const char *H = "123456789abcdefABCDEF0"; Bytes g; for (int k = 0; k < w; k++) g += H[(i * 3 + k * 5) % 22]; return g; }


template <class GO> bool shapes(bool thorough, GO go) {
    static const char *TAGS[] = {"IPv6:", "", "ipv6:", "foo:", "IPv4:", ":"};
    static const int WID[] = {1, 4, 5, 0};
    int ntags = thorough ? 6 : 4;
    for (int before = 0; before <= 8; before++) for (int after = 0; after <= 8; after++) for (int nulls = 0; nulls <= 2; nulls++)
        for (int tail = 0; tail < 2; tail++) for (int wi = 0; wi < 4; wi++) for (int t = 0; t < ntags; t++) {
            if (nulls == 0 && after > 0) continue;
            Bytes a;
            for (int i = 0; i < before; i++) { if (i) a += ':'; a += grp(i == before / 2 ? WID[wi] : 1 + (i % 4), i); }
            if (nulls >= 1) { a += "::"; for (int i = 0; i < after; i++) { if (i) a += ':'; a += grp(i == 0 ? WID[wi] : 1 + (i % 4), i + 3); } }
            if (nulls >= 2) a += "::1";
            if (tail) { if (!a.empty() && a.back() != ':') a += ':'; a += "192.0.2.128"; }
            if (!go("[" + Bytes(TAGS[t]) + a + "]")) return false;
        }
    // every octet value 0..300 in every position, bare and as IPv6 tail
    for (int pos = 0; pos < 4; pos++) for (int v = 0; v <= 300; v++) {
        Bytes q; for (int i = 0; i < 4; i++) { if (i) q += '.'; q += i == pos ? std::to_string(v) : std::to_string(7 + i); }
        for (const Bytes &d : {"[" + q + "]", "[IPv6:::ffff:" + q + "]", "[IPv6:1:2:3:4:5:6:" + q + "]", "[0" + q + "]"}) if (!go(d)) return false;
    }
    // longest spellings: every combination of group widths {1,4} for IPv6-full (8 groups) and IPv6v4-full (6 groups + quad with 1- or
    // 3-digit octets), tagged and untagged: literal lengths up to 46 / 52 octets must all be accepted
    for (int mask = 0; mask < 256; mask++) {
        Bytes a; for (int i = 0; i < 8; i++) { if (i) a += ':'; a += (mask >> i) & 1 ? "fedc" : "1"; }
        if (!go("[IPv6:" + a + "]")) return false; if ((mask & 15) == 0 && !go("[" + a + "]")) return false;
        if (mask < 64) for (const char *q : {"1.2.3.4", "255.255.255.255", "192.0.2.128", "100.20.3.255"}) {
            Bytes b; for (int i = 0; i < 6; i++) { if (i) b += ':'; b += (mask >> i) & 1 ? "fedc" : "0"; }
            if (!go("[IPv6:" + b + ":" + q + "]")) return false; if ((mask & 7) == 7 && !go("[" + b + ":" + q + "]")) return false;
        }
    }
    for (int before = 0; before <= 4; before++) for (int after = 0; before + after <= 4; after++) for (const char *q : {"9.8.7.6", "255.255.255.255"}) {   // IPv6v4-comp, full-width groups
        Bytes a; for (int i = 0; i < before; i++) { a += "abcd"; if (i + 1 < before) a += ':'; } a += "::"; for (int i = 0; i < after; i++) { a += "ef01:"; } a += q;
        if (!go("[IPv6:" + a + "]")) return false;
    }
    // every byte value at each of the five positions of the tag (only the case variants of "IPv6:" are a tag)
    for (int pos = 0; pos < 5; pos++) for (int x = 1; x < 256; x++) { if (x == '@') continue; Bytes tag = "IPv6:"; tag[pos] = (char) x;
        for (const char *a : {"2001:db8::1", "1:2:3:4:5:6:7:8", "::ffff:1.2.3.4"}) if (!go("[" + tag + a + "]")) return false; }
    // octets far beyond the range: values that wrap to <= 255 modulo 2^8, 2^16, 2^31, 2^32, 2^64 when accumulated in a
    // narrow or overflowing integer, long zero-padded and long all-nine runs
    static const char *BIG[] = {"256", "257", "511", "512", "65536", "65537", "65791", "2147483648", "2147483649", "4294967295", "4294967296", "4294967297", "4294967551", "4294967552",
                                "8589934593", "9999999999", "18446744073709551615", "18446744073709551616", "18446744073709551617", "18446744073709551871", "340282366920938463463374607431768211457",
                                "00000000000000000000000000000000000000001", "0000000000255", "0000000000256", "99999999999999999999999999999999", "1e3", "0x10", "1_0"};
    for (int pos = 0; pos < 4; pos++) for (const char *b : BIG) {
        Bytes q; for (int i = 0; i < 4; i++) { if (i) q += '.'; q += i == pos ? Bytes(b) : std::to_string(9 + i); }
        for (const Bytes &d : {"[" + q + "]", "[IPv6:::ffff:" + q + "]", "[IPv6:1:2:3:4:5:6:" + q + "]"}) if (!go(d)) return false;
    }
    for (const char *g : {"10000", "00000", "fffff", "0ffff", "123456789", "ffffffffffffffff1", "-1", "+1", " 1"}) for (int pos : {0, 3, 7})
        { Bytes a; for (int i = 0; i < 8; i++) { if (i) a += ':'; a += i == pos ? Bytes(g) : Bytes("1"); } if (!go("[IPv6:" + a + "]")) return false; }
    // digit counts and dot placement
    for (const char *q : {"1.2.3", "1.2.3.4.5", "1.2.3.4.", ".1.2.3.4", "1..2.3.4", "1.2.3.4..", "001.002.003.004", "0001.2.3.4", "1.2.3.0004", "256.1.1.1", "1.2.3.256", "0.0.0.0", "0.1.2.3", "1.2.3.4", "255.255.255.255",
                          "1.2.3.4a", "a.b.c.d", "1.2.3.-4", "1.2.3.+4", " 1.2.3.4", "1.2.3.4 ", "1,2,3,4", "0x1.2.3.4", "1.2.3.4/8", "12345678", "1.2.3.4\t"})
        for (const Bytes &d : {"[" + Bytes(q) + "]", "[IPv6:::" + Bytes(q) + "]", "[IPv6:" + Bytes(q) + "]", "[IPv4:" + Bytes(q) + "]"}) if (!go(d)) return false;
    // bytes after ']' and before '['
    static const unsigned char SB[] = {'x', '.', ']', '[', ' ', ':', '1', '\t', 0x80, '@' + 1, 'c', '-'};
    for (const char *base : {"[1.2.3.4]", "[IPv6:::1]", "[IPv6:1:2:3:4:5:6:7:8]", "[2001:db8::1]", "[abcdefgh]"}) {
        for (unsigned char x : SB) { if (!go(Bytes(base) + (char) x)) return false; if (!go(Bytes(1, (char) x) + base)) return false;
            for (unsigned char y : SB) { if (!go(Bytes(base) + (char) x + (char) y)) return false; for (unsigned char z : {(unsigned char) ']', (unsigned char) '2', (unsigned char) '.'}) if (!go(Bytes(base) + (char) x + (char) y + (char) z)) return false; } }
        if (!go(Bytes(base) + ".com")) return false; if (!go(Bytes(base) + ":1:2")) return false; if (!go("[" + Bytes(base))) return false; if (!go(Bytes(base) + "]")) return false;
        Bytes nb = base; nb.pop_back(); if (!go(nb)) return false;
    }
    // every byte value written over / inserted before every position of a few valid literals (a literal that stays valid
    // after such a change is valid by the reference too, so nothing is assumed about which ones those are)
    for (const char *base : {"[IPv6:fe80::01f]", "[IPv6:2001:0db8:0000:0000:0000:ff00:0042:8329]", "[IPv6:::ffff:192.0.2.128]", "[192.168.10.1]", "[IPv6:1:2:3:4:5:6:7.8.9.10]",
                             "[2001:db8::0a]", "[IPv6:0::0]"}) {
        Bytes b0 = base;
        for (size_t pos = 1; pos < b0.size(); pos++) for (int x = 1; x < 256; x++) {
            if (x == '@') continue;
            Bytes r = b0; r[pos] = (char) x; if (r != b0 && !go(r)) return false;
            Bytes i = b0; i.insert(i.begin() + pos, (char) x); if (!go(i)) return false;
        }
    }
    return true;
}
} // namespace lit
} // namespace vf
