// common.hpp — shared harness runtime: arguments, case encoding, counters,
// distinct non-trivial hashing, known-finding classes, failure/replay files.
// No dependency on libeav (only on the shim ABI).
#pragma once
#include <cstdint>
#include <cstdio>
#include <cstdlib>
#include <cstring>
#include <string>
#include <fstream>
#include <vector>
#include <map>
#include <set>
#include <algorithm>
#include <functional>
#include <sstream>
#include <unistd.h>
#include <signal.h>
#include <sys/time.h>
#include "../shim/vshim.h"

namespace vf {

using Bytes = std::string;

inline std::string hexs(const Bytes &b) {
    static const char *d = "0123456789abcdef";
    std::string s; s.reserve(b.size() * 2);
    for (unsigned char c : b) { s += d[c >> 4]; s += d[c & 15]; }
    return s;
}
inline Bytes unhex(const std::string &h) {
    Bytes b; auto v = [](char c) { return c <= '9' ? c - '0' : (c | 32) - 'a' + 10; };
    for (size_t i = 0; i + 1 < h.size(); i += 2) b += char(v(h[i]) * 16 + v(h[i + 1]));
    return b;
}
// human readable rendering for samples: printable ASCII as is, the rest \xHH
inline std::string show(const Bytes &b) {
    std::string s; char t[8];
    for (unsigned char c : b) {
        if (c >= 0x20 && c < 0x7f && c != '\\') s += char(c);
        else { snprintf(t, sizeof t, "\\x%02x", c); s += t; }
    }
    return s;
}
inline uint64_t mix64(uint64_t x) {
    x ^= x >> 33; x *= 0xff51afd7ed558ccdULL; x ^= x >> 33; x *= 0xc4ceb9fe1a85ec53ULL; x ^= x >> 33; return x;
}
inline uint64_t hashb(const void *p, size_t n, uint64_t seed = 0) {
    uint64_t h = 1469598103934665603ULL ^ mix64(seed + 0x9e3779b97f4a7c15ULL);
    const unsigned char *c = (const unsigned char *) p;
    for (size_t i = 0; i < n; i++) { h ^= c[i]; h *= 1099511628211ULL; }
    return mix64(h ^ n);
}
inline uint64_t hashs(const Bytes &b, uint64_t seed = 0) { return hashb(b.data(), b.size(), seed); }

inline std::string jesc(const std::string &s) {
    std::string o; char t[8];
    for (unsigned char c : s) {
        if (c == '"') o += "\\\""; else if (c == '\\') o += "\\\\";
        else if (c < 0x20 || c >= 0x7f) { snprintf(t, sizeof t, "\\u%04x", c); o += t; }
        else o += char(c);
    }
    return o;
}

// ---------------------------------------------------------------------------
// A case is a flat key=value record; byte strings are hex, everything else text
// without blanks.  This is the replay format (field `case` of a replay file).
struct Case {
    std::vector<std::pair<std::string, std::string>> kv;
    Case &i(const std::string &k, long long v) { kv.push_back({k, std::to_string(v)}); return *this; }
    Case &b(const std::string &k, const Bytes &v) { kv.push_back({k, "x" + hexs(v)}); return *this; }
    Case &s(const std::string &k, const std::string &v) { kv.push_back({k, "s" + v}); return *this; }
    bool has(const std::string &k) const { for (auto &p : kv) if (p.first == k) return true; return false; }
    std::string raw(const std::string &k) const { for (auto &p : kv) if (p.first == k) return p.second; return ""; }
    long long geti(const std::string &k, long long d = 0) const { return has(k) ? atoll(raw(k).c_str()) : d; }
    Bytes getb(const std::string &k) const { std::string r = raw(k); return r.empty() ? Bytes() : unhex(r.substr(1)); }
    std::string gets(const std::string &k) const { std::string r = raw(k); return r.empty() ? r : r.substr(1); }
    std::string str() const {
        std::string o;
        for (auto &p : kv) { if (!o.empty()) o += ' '; o += p.first + "=" + p.second; }
        return o;
    }
    static Case parse(const std::string &t) {
        Case c; std::istringstream is(t); std::string tok;
        while (is >> tok) { auto e = tok.find('='); if (e != std::string::npos) c.kv.push_back({tok.substr(0, e), tok.substr(e + 1)}); }
        return c;
    }
};

struct Failure {
    std::string cls;      // classifier of the failing case (matched against known findings)
    std::string casestr;  // Case::str()
    std::string explain;  // expected / observed / oracle clause
};

struct Args {
    std::string stage = "all";
    int worker = 0, nworkers = 1;
    uint64_t seed = 1;
    long long budget = 1000;
    bool thorough = false;
    std::string out = ".";
    std::string replay;        // case string to re-execute
    std::string datadir;       // scratch copy of /repo/data
    std::set<std::string> known;
    std::vector<std::string> rest;
};

inline Args parse_args(int argc, char **argv) {
    Args a;
    for (int i = 1; i < argc; i++) {
        std::string k = argv[i];
        auto nx = [&]() -> std::string { return i + 1 < argc ? argv[++i] : ""; };
        if (k == "--stage") a.stage = nx();
        else if (k == "--worker") { std::string w = nx(); sscanf(w.c_str(), "%d/%d", &a.worker, &a.nworkers); }
        else if (k == "--seed") a.seed = strtoull(nx().c_str(), 0, 10);
        else if (k == "--budget") a.budget = atoll(nx().c_str());
        else if (k == "--thorough") a.thorough = true;
        else if (k == "--out") a.out = nx();
        else if (k == "--replay") a.replay = nx();
        else if (k == "--replay-file") { std::ifstream f(nx(), std::ios::binary); a.replay.assign((std::istreambuf_iterator<char>(f)), std::istreambuf_iterator<char>()); }   // cases too long for one argv string
        else if (k == "--data") a.datadir = nx();
        else if (k == "--known") { std::string s = nx(), t; std::istringstream is(s); while (std::getline(is, t, ',')) if (!t.empty()) a.known.insert(t); }
        else a.rest.push_back(k);
    }
    return a;
}

// ---------------------------------------------------------------------------
class Run {
public:
    Args a;
    std::string prop;
    uint64_t evaluations = 0;
    std::map<std::string, uint64_t> classes;
    std::map<std::string, std::vector<std::string>> samples;
    std::vector<uint64_t> nt; size_t nt_sorted = 0; bool nt_capped = false;
    static constexpr size_t NT_CAP = 3000000;
    std::map<std::string, std::pair<uint64_t, std::string>> known_hits;
    std::vector<Failure> failures;
    std::vector<std::pair<std::string, uint64_t>> exhaustive; // fully enumerated sub-spaces (name, size)
    std::vector<std::string> notes;
    bool health_fail = false;

    void eval(uint64_t n = 1) { evaluations += n; }
    void count(const std::string &label, uint64_t n = 1) { classes[label] += n; }
    std::map<std::string, uint64_t> sample_seen;
    // keeps the 3rd, 9th, 27th, ... candidate of a label, so samples are spread over the run
    void sample(const std::string &label, const std::string &text, size_t cap = 3) {
        auto &v = samples[label]; if (v.size() >= cap) return;
        uint64_t n = ++sample_seen[label], p = 3;
        while (p < n) p *= 3;
        if (p == n) v.push_back(text);
    }
    void compact() {
        std::sort(nt.begin(), nt.end()); nt.erase(std::unique(nt.begin(), nt.end()), nt.end()); nt_sorted = nt.size();
    }
    void nontrivial(uint64_t h) {
        if (nt_capped) return;
        nt.push_back(h);
        if (nt.size() >= nt_sorted + NT_CAP) { compact(); if (nt.size() >= NT_CAP) nt_capped = true; }
    }
    // Returns true when the failure belongs to an open known finding (excluded, counted).
    bool fail(const Failure &f) {
        if (a.known.count(f.cls)) {
            auto &k = known_hits[f.cls]; k.first++; if (k.second.empty()) k.second = f.casestr + " :: " + f.explain;
            return true;
        }
        if (failures.size() < 20) failures.push_back(f);
        return false;
    }
    bool failed() const { return !failures.empty(); }
    void space(const std::string &name, uint64_t size) { exhaustive.push_back({name, size}); }
    void note(const std::string &s) { notes.push_back(s); }

    void write() {
        compact();
        std::string base = a.out + "/" + a.stage + "-" + std::to_string(a.worker);
        FILE *h = fopen((base + ".hashes").c_str(), "wb");
        if (h) { if (!nt.empty()) fwrite(nt.data(), 8, nt.size(), h); fclose(h); }
        FILE *f = fopen((base + ".json.tmp").c_str(), "w");
        if (!f) { perror("fopen"); _exit(2); }
        fprintf(f, "{\"stage\":\"%s\",\"worker\":%d,\"evaluations\":%llu,\"nontrivial_local\":%zu,\"nt_capped\":%s,\"health_fail\":%s,\n",
                jesc(a.stage).c_str(), a.worker, (unsigned long long) evaluations, nt.size(), nt_capped ? "true" : "false", health_fail ? "true" : "false");
        fprintf(f, "\"classes\":{"); bool first = true;
        for (auto &p : classes) { fprintf(f, "%s\"%s\":%llu", first ? "" : ",", jesc(p.first).c_str(), (unsigned long long) p.second); first = false; }
        fprintf(f, "},\n\"samples\":{"); first = true;
        for (auto &p : samples) {
            fprintf(f, "%s\"%s\":[", first ? "" : ",", jesc(p.first).c_str()); first = false;
            for (size_t i = 0; i < p.second.size(); i++) fprintf(f, "%s\"%s\"", i ? "," : "", jesc(p.second[i]).c_str());
            fprintf(f, "]");
        }
        fprintf(f, "},\n\"known_hits\":{"); first = true;
        for (auto &p : known_hits) { fprintf(f, "%s\"%s\":{\"count\":%llu,\"example\":\"%s\"}", first ? "" : ",", jesc(p.first).c_str(), (unsigned long long) p.second.first, jesc(p.second.second).c_str()); first = false; }
        fprintf(f, "},\n\"exhaustive\":["); first = true;
        for (auto &p : exhaustive) { fprintf(f, "%s{\"space\":\"%s\",\"size\":%llu}", first ? "" : ",", jesc(p.first).c_str(), (unsigned long long) p.second); first = false; }
        fprintf(f, "],\n\"notes\":["); first = true;
        for (auto &p : notes) { fprintf(f, "%s\"%s\"", first ? "" : ",", jesc(p).c_str()); first = false; }
        fprintf(f, "],\n\"failures\":["); first = true;
        for (auto &p : failures) { fprintf(f, "%s{\"cls\":\"%s\",\"case\":\"%s\",\"explain\":\"%s\"}", first ? "" : ",", jesc(p.cls).c_str(), jesc(p.casestr).c_str(), jesc(p.explain).c_str()); first = false; }
        fprintf(f, "]}\n");
        fclose(f);
        rename((base + ".json.tmp").c_str(), (base + ".json").c_str());
    }
};

// ---------------------------------------------------------------------------
// In-flight case: what the process was evaluating when a sanitizer (or abort)
// killed it.  The death callback writes it next to the worker report, and the
// driver turns it into the replay file.
inline std::function<std::string()> &inflight() { static std::function<std::string()> f; return f; }
inline std::string &inflight_path() { static std::string p; return p; }
inline void on_death() {
    if (!inflight() || inflight_path().empty()) return;
    std::string c = inflight()();
    FILE *f = fopen(inflight_path().c_str(), "w");
    if (f) { fputs(c.c_str(), f); fclose(f); }
}
#if defined(__has_feature)
// (not under TSan: a death callback running instrumented code while the report lock is held deadlocks the process)
#if __has_feature(address_sanitizer)
#define VF_HAVE_DEATH_CB 1
extern "C" void __sanitizer_set_death_callback(void (*)(void));
#endif
#endif
inline void install_death(const Args &a) {
    inflight_path() = a.out + "/" + a.stage + "-" + std::to_string(a.worker) + ".inflight";
#ifdef VF_HAVE_DEATH_CB
    __sanitizer_set_death_callback(on_death);
#endif
}

// Watchdog: a validation that does not return.  A profiling timer ticks every `tick` seconds of CPU time *of this
// process* (machine load does not count); when three consecutive ticks see no finished evaluation, the process writes the
// in-flight case and exits with code 78.  Inputs are at most 64 KiB outside the `huge` stages, where a validation takes
// microseconds to milliseconds: 30 s of CPU time inside one call is not "work linear in the input" by any reading.
#ifdef VF_HAVE_DEATH_CB
inline const volatile uint64_t *&wd_progress() { static const volatile uint64_t *p = nullptr; return p; }
__attribute__((no_sanitize("address", "undefined"))) inline void wd_tick(int) {
    static uint64_t last = ~(uint64_t) 0; static int idle = 0;
    const volatile uint64_t *p = wd_progress(); if (!p) return;
    if (*p == last) { if (++idle >= 3) { on_death(); static const char m[] = "WATCHDOG: no evaluation finished within three CPU-time ticks\n"; if (write(2, m, sizeof m - 1)) {} _exit(78); } }
    else { last = *p; idle = 0; }
}
inline void install_watchdog(const uint64_t *progress, int tick_s) {
    wd_progress() = progress;
    struct sigaction sa; memset(&sa, 0, sizeof sa); sa.sa_handler = wd_tick; sa.sa_flags = SA_RESTART; sigaction(SIGPROF, &sa, nullptr);
    struct itimerval it; it.it_interval.tv_sec = tick_s; it.it_interval.tv_usec = 0; it.it_value = it.it_interval; setitimer(ITIMER_PROF, &it, nullptr);
}
// The counter lives in main's Run object: the timer must be off before that object dies (and before the sanitizers'
// exit-time work, during which a report raised from a signal handler would deadlock the process).
inline void stop_watchdog() {
    struct itimerval it; memset(&it, 0, sizeof it); setitimer(ITIMER_PROF, &it, nullptr);
    signal(SIGPROF, SIG_IGN); wd_progress() = nullptr;
}
#else
inline void install_watchdog(const uint64_t *, int) {}
inline void stop_watchdog() {}
#endif
struct WatchdogGuard { ~WatchdogGuard() { stop_watchdog(); } };

// exit codes of a harness process: 0 ok, 3 oracle failure(s) recorded, 2 infra / health
inline int finish(Run &R) {
    R.write();
    if (R.failed()) return 3;
    if (R.health_fail) return 2;
    return 0;
}

// ---------------------------------------------------------------------------
// Byte source: structure-aware decoding of an entropy string.  rapidcheck (or
// libFuzzer) supplies the bytes, so shrinking and replay work on them; an
// exhausted source yields zeros, and 0 always selects the simplest alternative.
struct Src {
    const uint8_t *p; size_t n, i = 0;
    Src(const uint8_t *p_, size_t n_) : p(p_), n(n_) {}
    explicit Src(const std::vector<uint8_t> &v) : p(v.data()), n(v.size()) {}
    // expand: once the entropy is used up, continue with a deterministic stream derived
    // from it (a pure function of the generated value), instead of zeros.  For large
    // structures (thread workloads) whose size exceeds what the library generates.
    bool expand = false; uint64_t xs = 0; bool seeded = false;
    bool empty() const { return i >= n; }
    uint32_t byte() {
        if (i < n) return p[i++];
        if (!expand) return 0;
        if (!seeded) { xs = hashb(p, n, 0x5eed); seeded = true; }
        xs += 0x9e3779b97f4a7c15ULL; uint64_t z = xs; z = (z ^ (z >> 30)) * 0xbf58476d1ce4e5b9ULL; z = (z ^ (z >> 27)) * 0x94d049bb133111ebULL; z ^= z >> 31;
        return (uint32_t) (z & 0xff);
    }
    uint32_t pick(uint32_t k) {           // 0..k-1
        if (k <= 1) return 0;
        if (k <= 256) return byte() % k;
        uint32_t v = byte(); v = (v << 8) | byte(); if (k > 65536) { v = (v << 8) | byte(); }
        return v % k;
    }
    uint32_t range(uint32_t lo, uint32_t hi) { return lo + pick(hi - lo + 1); }
    bool chance(uint32_t num, uint32_t den) { return pick(den) >= den - num; } // 0 -> false
    template <class T> const T &of(const std::vector<T> &v) { return v[pick((uint32_t) v.size())]; }
};

// Heap buffer that places a string so that its terminator is the *last* byte of
// the allocation: a read past the terminator lands in the ASan red zone.
struct TailBuf {
    char *base; size_t cap;
    explicit TailBuf(size_t c = 1024) : base((char *) malloc(c)), cap(c) {}
    ~TailBuf() { free(base); }
    TailBuf(const TailBuf &) = delete;
    char *place(const Bytes &b, char term, const Bytes &after = Bytes()) {
        size_t need = b.size() + 1 + after.size() + (after.empty() ? 0 : 1);
        if (need > cap) { free(base); cap = need * 2; base = (char *) malloc(cap); }
        char *p = base + cap - need;
        memcpy(p, b.data(), b.size()); p[b.size()] = term;
        if (!after.empty()) { memcpy(p + b.size() + 1, after.data(), after.size()); p[need - 1] = 0; }
        return p;
    }
};

// Exact-size heap copy (n+1 bytes): reads before the first byte or after the
// terminator are both ASan errors.  Used where memory safety is the property.
struct ExactBuf {
    char *p;
    explicit ExactBuf(const Bytes &b) : p((char *) malloc(b.size() + 1)) { memcpy(p, b.data(), b.size()); p[b.size()] = 0; }
    ~ExactBuf() { free(p); }
    ExactBuf(const ExactBuf &) = delete;
};

} // namespace vf

#include <optional>
namespace vf {
using StageFn = std::function<void(Run &)>;
using ReplayFn = std::function<std::optional<Failure>(Run &, const Case &)>;
// Standard main of a property binary: --replay <case> or --stage <name>.
inline int std_main(int argc, char **argv, const char *pid, const std::map<std::string, StageFn> &stages, ReplayFn replay,
                    std::function<std::string()> infl, std::function<bool(Run &)> init = nullptr, std::function<void()> fini = nullptr) {
    Run R; R.a = parse_args(argc, argv); R.prop = pid;
    install_death(R.a);
    inflight() = infl;
    WatchdogGuard wdg; install_watchdog(&R.evaluations, R.a.stage == "huge" || R.a.stage == "stack" ? 60 : 10);
    if (init && !init(R)) { fprintf(stderr, "%s: harness initialisation failed\n", pid); return 2; }
    int rcode;
    if (!R.a.replay.empty()) {
        auto f = replay(R, Case::parse(R.a.replay));
        if (f) { printf("REPLAY-FAIL %s: %s\n", f->cls.c_str(), f->explain.c_str()); rcode = 3; }
        else { printf("REPLAY-PASS\n"); rcode = 0; }
    } else {
        auto it = stages.find(R.a.stage);
        if (it == stages.end()) { fprintf(stderr, "unknown stage %s\n", R.a.stage.c_str()); return 2; }
        it->second(R);
        rcode = finish(R);
    }
    inflight() = nullptr;
    if (fini) fini();
    return rcode;
}
} // namespace vf

// ---------------------------------------------------------------------------
// libFuzzer mode of a property binary (compiled with -DVF_FUZZ and linked against the
// fuzzer-instrumented variant): the same case-level oracle, driven by coverage-guided byte
// fuzzing.  The property file supplies init + one(data,size); an oracle failure is recorded
// with the property's own case string (so the ordinary replay path reproduces it) and traps.
#ifdef VF_FUZZ
namespace vf {
struct FuzzHooks { const char *pid = ""; std::function<bool(Run &)> init; std::function<std::optional<Failure>(Run &, const uint8_t *, size_t)> one; };
inline FuzzHooks &fuzz_hooks() { static FuzzHooks h; return h; }
inline Run &fuzz_run() { static Run r; return r; }
inline void fuzz_flush() { fuzz_run().write(); }
}
extern "C" void __sanitizer_set_death_callback(void (*)(void));
extern "C" int LLVMFuzzerInitialize(int *, char ***) {
    vf::Run &R = vf::fuzz_run();
    R.a.out = getenv("VF_OUT") ? getenv("VF_OUT") : "."; R.a.stage = getenv("VF_STAGE") ? getenv("VF_STAGE") : "fuzz";
    R.a.worker = getenv("VF_WORKER") ? atoi(getenv("VF_WORKER")) : 0; R.a.datadir = getenv("VF_DATA") ? getenv("VF_DATA") : ".";
    R.prop = vf::fuzz_hooks().pid;
    if (vf::fuzz_hooks().init && !vf::fuzz_hooks().init(R)) { fprintf(stderr, "fuzz init failed\n"); abort(); }
    atexit(vf::fuzz_flush);
    __sanitizer_set_death_callback(vf::fuzz_flush);
    return 0;
}
extern "C" int LLVMFuzzerTestOneInput(const uint8_t *data, size_t size) {
    vf::Run &R = vf::fuzz_run();
    auto f = vf::fuzz_hooks().one(R, data, size);
    if (f && !R.fail(*f)) { vf::fuzz_flush(); fprintf(stderr, "ORACLE-FAILURE %s: %s\n", f->cls.c_str(), f->explain.c_str()); __builtin_trap(); }
    return 0;
}
namespace vf { inline Bytes fuzz_bytes(const uint8_t *d, size_t n) { size_t k = 0; while (k < n && d[k]) k++; return Bytes((const char *) d, k); } }
#define VF_FUZZ_TARGET(PID, INIT, ONE) static int vf_fuzz_reg = [] { vf::fuzz_hooks().pid = PID; vf::fuzz_hooks().init = INIT; vf::fuzz_hooks().one = ONE; return 0; }();
#endif
