// rc_glue.hpp — drives a case-level oracle with rapidcheck.  The generated value
// is an entropy byte vector decoded by the structure-aware generators of gen.hpp,
// so all random choices are rapidcheck's and its shrinking (drop / reduce bytes)
// simplifies the decoded case.  Seed, case count and size come from RC_PARAMS,
// which the driver derives from VERIF_SEED.
#pragma once
#include <rapidcheck.h>
#include <optional>
#include "common.hpp"

namespace vf {

// fn(Src&) -> std::optional<Failure>; nullopt = the case passed
template <class F>
inline void rc_run(Run &R, const char *name, double scale, F fn) {
    Failure last; bool have = false;
    bool ok = rc::check(name, [&]() {
        std::vector<uint8_t> ent = *rc::gen::scale(scale, rc::gen::arbitrary<std::vector<uint8_t>>());
        Src s(ent);
        std::optional<Failure> f = fn(s);
        if (f) {
            if (R.a.known.count(f->cls)) { R.fail(*f); return; } // open known finding: counted, search goes on
            last = *f; have = true;
            RC_FAIL(f->cls + ": " + f->explain);
        }
    });
    if (!ok) {
        if (have) R.fail(last);  // last failing evaluation == the shrunk counterexample
        else R.fail(Failure{"harness-error", "", std::string("rapidcheck reported failure without oracle failure in ") + name});
    }
}

} // namespace vf
