// tldutil.hpp — the shipped CSVs as the oracle's TLD table, plus the mapping of
// class names to the constants of the variant's headers.
#pragma once
#include "lib.hpp"
#include "../oracle/ref.hpp"

namespace vf {

static const char *const CLASS_NAMES[9] = {"NOT_ASSIGNED", "COUNTRY_CODE", "GENERIC", "GENERIC_RESTRICTED", "INFRASTRUCTURE", "SPONSORED", "TEST", "SPECIAL", "RETIRED"};

struct Tlds {
    ref::TldTable puny;            // data/punycode.csv : A-label rows
    std::vector<Bytes> ulabels;    // data/raw.csv      : U-label of the same row index
    std::vector<Bytes> alist;      // all A-label domains
    std::vector<Bytes> idn_u, idn_a; // rows whose U-label differs from the A-label
    bool load(const std::string &datadir) {
        if (!puny.load(datadir + "/punycode.csv")) return false;
        auto raw = ref::read_csv(datadir + "/raw.csv");
        for (size_t i = 1; i < raw.size(); i++) ulabels.push_back(raw[i].empty() ? Bytes() : raw[i][0]);
        for (auto &r : puny.rows) alist.push_back(r.domain);
        if (ulabels.size() == puny.rows.size())
            for (size_t i = 0; i < ulabels.size(); i++) if (ulabels[i] != puny.rows[i].domain) { idn_u.push_back(ulabels[i]); idn_a.push_back(puny.rows[i].domain); }
        return !puny.rows.empty();
    }
};

struct Consts {
    int tld_type[9], eeav_tld[9], bit[9];
    int E_NO_ERROR, E_TLD_INVALID, E_NOT_FQDN, E_IDN;
    explicit Consts(const vapi *a) {
        K k(a);
        for (int i = 0; i < 9; i++) {
            tld_type[i] = k(std::string("TLD_TYPE_") + CLASS_NAMES[i]);
            eeav_tld[i] = k(std::string("EEAV_TLD_") + CLASS_NAMES[i]);
            bit[i] = k(std::string("EAV_TLD_") + CLASS_NAMES[i]);
        }
        E_NO_ERROR = k("EEAV_NO_ERROR"); E_TLD_INVALID = k("EEAV_TLD_INVALID"); E_NOT_FQDN = k("EEAV_DOMAIN_NOT_FQDN"); E_IDN = k("EEAV_IDN_ERROR");
    }
    int idx(const Bytes &cls) const { for (int i = 0; i < 9; i++) if (cls == CLASS_NAMES[i]) return i; return -1; }
    int all_bits() const { int m = 0; for (int i = 0; i < 9; i++) m |= bit[i]; return m; }
};

} // namespace vf
