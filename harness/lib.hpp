// lib.hpp — thin C++ conveniences over the shim ABI (still public API only).
#pragma once
#include "common.hpp"
#include <idn2.h>
#include <climits>

namespace vf {

struct K { // named constants of the variant's headers, resolved at run time
    const vapi *a;
    explicit K(const vapi *a_) : a(a_) {}
    int operator()(const char *n) const { int v = a->konst(n); if (v == INT_MIN) { fprintf(stderr, "unknown constant %s\n", n); abort(); } return v; }
    int operator()(const std::string &n) const { return (*this)(n.c_str()); }
};

// eav_t owned by the harness; optional pre-fill of the raw block before eav_init
class Obj {
public:
    const vapi *a; void *p; bool live = false;
    explicit Obj(const vapi *a_, int prefill = -1) : a(a_) {
        size_t n = a->obj_size(); p = malloc(n);
        if (prefill >= 0) memset(p, prefill, n);
        a->obj_init(p); live = true;
    }
    Obj(const Obj &) = delete;
    ~Obj() { if (live) a->obj_free(p); free(p); }
    int configure(int mode, int tld, int allow = INT_MIN) {
        a->obj_set_mode(p, mode); a->obj_set_tld(p, tld); if (allow != INT_MIN) a->obj_set_allow(p, allow);
        return a->obj_setup(p);
    }
    v_outcome is_email(const Bytes &s) {
        v_outcome o; ExactBuf e(s); a->obj_is_email(p, e.p, s.size(), &o); return o;
    }
    v_outcome is_email_tail(TailBuf &tb, const Bytes &s) {
        v_outcome o; char *q = tb.place(s, 0); a->obj_is_email(p, q, s.size(), &o); return o;
    }
};

inline v_outcome email_direct(const vapi *a, TailBuf &tb, int mode, const Bytes &s, int tld) {
    v_outcome o; char *q = tb.place(s, 0); a->email_direct(mode, q, s.size(), tld, &o); return o;
}
inline int part0(const vapi *a, TailBuf &tb, int which, const Bytes &s, int tld = 0, int *idn_rc = nullptr) {
    char *q = tb.place(s, 0); return a->part(which, q, q + s.size(), tld, idn_rc);
}

// The IDN library itself is trusted base wherever an A-label form is needed.
struct ToAscii { int rc; Bytes out; };
inline ToAscii to_ascii(const Bytes &u) {
    ToAscii r; char *o = nullptr;
    r.rc = idn2_to_ascii_8z(u.c_str(), &o, IDN2_NONTRANSITIONAL);
    if (r.rc == IDN2_OK && o) r.out = o;
    if (o) idn2_free(o);
    return r;
}

inline std::string outcome_str(const v_outcome &o) {
    char t[256];
    snprintf(t, sizeof t, "ret=%d errcode=%d rc=%d idn_rc=%d flags(v4,v6,dom)=%d%d%d errstr='%s'", o.ret, o.errcode, o.rc, o.idn_rc, o.is_ipv4, o.is_ipv6, o.is_domain,
             o.errstr_null ? "(null)" : o.errstr);
    return t;
}

} // namespace vf
