// lib.hpp — thin C++ conveniences over the shim ABI (still public API only).
#pragma once
#include "common.hpp"
#include <idn2.h>
#include <climits>

namespace vf {

struct K { // named constants of the variant's headers, resolved at run time
    const vapi *a;
    explicit K(const vapi *a_) : a(a_) {}
    int operator()(const char *n) const { int v = a->konst(n); if (v == INT_MIN) { fprintf(stderr, "unknown constant %s\n", n); abort(); } return v; }
    int operator()(const std::string &n) const { return (*this)(n.c_str()); }
};

// eav_t owned by the harness; optional pre-fill of the raw block before eav_init
class Obj {
public:
    const vapi *a; void *p; bool live = false;
    explicit Obj(const vapi *a_, int prefill = -1) : a(a_) {
        size_t n = a->obj_size(); p = malloc(n);
        if (prefill >= 0) memset(p, prefill, n);
        a->obj_init(p); live = true;
    }
    Obj(const Obj &) = delete;
    ~Obj() { if (live) a->obj_free(p); free(p); }
    int configure(int mode, int tld, int allow = INT_MIN) {
        a->obj_set_mode(p, mode); a->obj_set_tld(p, tld); if (allow != INT_MIN) a->obj_set_allow(p, allow);
        return a->obj_setup(p);
    }
    v_outcome is_email(const Bytes &s) {
        v_outcome o; ExactBuf e(s); a->obj_is_email(p, e.p, s.size(), &o); return o;
    }
    v_outcome is_email_tail(TailBuf &tb, const Bytes &s) {
        v_outcome o; char *q = tb.place(s, 0); a->obj_is_email(p, q, s.size(), &o); return o;
    }
};

inline v_outcome email_direct(const vapi *a, TailBuf &tb, int mode, const Bytes &s, int tld) {
    v_outcome o; char *q = tb.place(s, 0); a->email_direct(mode, q, s.size(), tld, &o); return o;
}
inline int part0(const vapi *a, TailBuf &tb, int which, const Bytes &s, int tld = 0, int *idn_rc = nullptr) {
    char *q = tb.place(s, 0); return a->part(which, q, q + s.size(), tld, idn_rc);
}

// The IDN library itself is trusted base wherever an A-label form is needed.
struct ToAscii { int rc; Bytes out; };
inline ToAscii to_ascii(const Bytes &u) {
    ToAscii r; char *o = nullptr;
    r.rc = idn2_to_ascii_8z(u.c_str(), &o, IDN2_NONTRANSITIONAL);
    if (r.rc == IDN2_OK && o) r.out = o;
    if (o) idn2_free(o);
    return r;
}

// Inputs longer than 2^31 octets (thorough tiers only): expected verdicts are known by construction, no reference
// recogniser is run over them.  shape 0: run of 'a'; 1: run + "."; 2: quoted run; 3: run with one 0xFF in the middle;
// 4: labels of 63 + ".com" (a host name far beyond 253 octets); 5: run of U+0416.
inline char *huge_input(int shape, size_t *len) {
    size_t n = ((size_t) 1 << 31) + 200; char *s = (char *) malloc(n + 8); if (!s) return nullptr;
    memset(s, 'a', n);
    switch (shape) {
    case 1: s[n - 1] = '.'; break;
    case 2: s[0] = '"'; s[n - 1] = '"'; memset(s + 1, 'q', n - 2); break;
    case 3: s[n / 2] = (char) 0xFF; break;
    case 4: for (size_t i = 63; i < n; i += 64) s[i] = '.'; memcpy(s + n - 4, ".com", 4); s[n - 5] = 'a'; break;
    case 5: for (size_t i = 0; i + 1 < n; i += 2) { s[i] = (char) 0xD0; s[i + 1] = (char) 0x96; } break;
    }
    s[n] = 0; *len = n; return s;
}

inline std::string outcome_str(const v_outcome &o) {
    char t[256];
    snprintf(t, sizeof t, "ret=%d errcode=%d rc=%d idn_rc=%d flags(v4,v6,dom)=%d%d%d errstr='%s'", o.ret, o.errcode, o.rc, o.idn_rc, o.is_ipv4, o.is_ipv6, o.is_domain,
             o.errstr_null ? "(null)" : o.errstr);
    return t;
}

} // namespace vf
