// exercise.hpp — calls every public entry point of a variant on one NUL-terminated
// input (C06).  The string lives in a caller-supplied buffer `p` of exactly n+1 bytes
// (heap block of exact size under ASan, or a read-only page flush against a guard page),
// so that any read before the first byte or after the terminator, and any write to the
// input, is a fault.  Returns a digest of all outcomes (used for differential relations).
#pragma once
#include "lib.hpp"

namespace vf {

struct ExObjs { Obj *o[4][2]; Obj *cyc = nullptr; };

inline uint64_t dig(uint64_t h, const v_outcome &x) {
    int f[9] = {x.ret, x.errcode, x.rc, x.idn_rc, x.is_ipv4, x.is_ipv6, x.is_domain, x.errstr_null, x.has_result};
    h = hashb(f, sizeof f, h);
    return hashb(x.errstr, strlen(x.errstr), h);
}

// which: bit 0 = dedicated objects, bit 1 = direct email, bit 2 = per-part validators, bit 3 = one object cycled through the modes
inline uint64_t exercise_all(const vapi *A, ExObjs *objs, const char *p, size_t n, int which = 15, int only_mode = -1) {
    uint64_t h = 0; v_outcome o;
    const char *e = p + n;
    const char *at = nullptr; for (const char *q = p; q < e; q++) if (*q == '@') at = q;
    if (which & 1)
        for (int m = 0; m < 4; m++) { if (only_mode >= 0 && m != only_mode) continue; for (int t = 0; t < 2; t++) { A->obj_is_email(objs->o[m][t]->p, p, n, &o); h = dig(h, o); } }
    if ((which & 8) && objs->cyc) {
        // one object re-configured between calls: 6531 -> 822 -> (failed setup) -> 5321 -> 6531 -> 5322, validating after each
        // step; must equal the dedicated objects' outcomes (no state may leak, nothing may be freed twice)
        static const int ORDER[] = {3, 0, -1, 1, 3, 2};
        for (int k : ORDER) {
            if (k < 0) { A->obj_set_rfc_raw(objs->cyc->p, 99); (void) A->obj_setup(objs->cyc->p); continue; }
            A->obj_set_mode(objs->cyc->p, k); if (A->obj_setup(objs->cyc->p) != 0) abort();
            A->obj_is_email(objs->cyc->p, p, n, &o); h = dig(h, o);
            v_outcome d; A->obj_is_email(objs->o[k][1]->p, p, n, &d);
            if (dig(0, o) != dig(0, d)) h ^= 0xBADC0FFEE0DDF00DULL + k;   // visible as a digest difference between object sets only if it is set-specific
            if (o.ret != d.ret || o.errcode != d.errcode) { fprintf(stderr, "CYCLING-OBJECT-DIFFERS mode %d\n", k); abort(); }
        }
    }
    if (which & 2)
        for (int m = 0; m < 4; m++) { if (only_mode >= 0 && m != only_mode) continue; for (int t = 0; t < 2; t++) { A->email_direct(m, p, n, t, &o); h = dig(h, o); } }
    if (which & 4) {
        int r[48], k = 0, ir = 0;
        for (int w = VP_822_LOCAL; w <= VP_6531_LOCAL; w++) { r[k++] = A->part(w, p, e, 0, nullptr); if (at) r[k++] = A->part(w, p, at, 0, nullptr); }
        const char *d = at ? at + 1 : p;
        r[k++] = A->part(VP_ASCII_DOMAIN, p, e, 0, nullptr); r[k++] = A->part(VP_ASCII_DOMAIN, d, e, 0, nullptr);
        r[k++] = A->part(VP_UTF8_DOMAIN, d, e, 0, &ir); r[k++] = ir; r[k++] = A->part(VP_UTF8_DOMAIN, d, e, 1, &ir); r[k++] = ir;
        r[k++] = A->part(VP_IPV4, d, e, 0, nullptr); r[k++] = A->part(VP_IPV6, d, e, 0, nullptr); r[k++] = A->part(VP_IPADDR, d, e, 0, nullptr);
        if (*d == '[') { const char *rb = nullptr; for (const char *q = d; q < e; q++) if (*q == ']') rb = q;
            if (rb && rb > d) { r[k++] = A->part(VP_IPV4, d + 1, rb, 0, nullptr); r[k++] = A->part(VP_IPV6, d + 1, rb, 0, nullptr); r[k++] = A->part(VP_IPADDR, d + 1, rb, 0, nullptr); } }
        r[k++] = A->part(VP_TLD, d, e, 0, nullptr);
        { const char *dot = nullptr; for (const char *q = d; q < e; q++) if (*q == '.') dot = q; if (dot) r[k++] = A->part(VP_TLD, dot + 1, e, 0, nullptr); }
        r[k++] = A->part(VP_SPECIAL, d, e, 0, nullptr);
        if (d != p) r[k++] = A->part(VP_SPECIAL, p, e, 0, nullptr);
        // [start,end) ranges that stop before the terminator (as the local-part calls above do at '@'): the bytes after `end` belong to
        // the caller and must not be written; what the verdict should be is not judged, only memory behaviour and determinism
        if (e - d >= 3) { const char *e2 = e - 1; r[k++] = A->part(VP_ASCII_DOMAIN, d, e2, 0, nullptr); r[k++] = A->part(VP_UTF8_DOMAIN, d, e2, 1, &ir); r[k++] = A->part(VP_TLD, d, e2, 0, nullptr); r[k++] = A->part(VP_IPADDR, d, e2, 0, nullptr); }
        h = hashb(r, sizeof(int) * k, h);
    }
    return h;
}

inline bool make_objs(const vapi *A, ExObjs *x, int prefill) {
    for (int m = 0; m < 4; m++) for (int t = 0; t < 2; t++) { x->o[m][t] = new Obj(A, prefill); if (x->o[m][t]->configure(m, t) != 0) return false; }
    x->cyc = new Obj(A, prefill); if (x->cyc->configure(3, 1) != 0) return false;
    return true;
}
inline void free_objs(ExObjs *x) { for (auto &r : x->o) for (auto &o : r) { delete o; o = nullptr; } delete x->cyc; x->cyc = nullptr; }

} // namespace vf
