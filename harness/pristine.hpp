// pristine.hpp — outcomes computed in a process that has never called libeav before.
// A helper process ("zygote") is forked before the worker makes its first libeav call; for every query it forks
// a grandchild that configures one fresh object, validates one address, writes the observable tuple to a pipe and
// _exits.  Hidden process-wide state (statics, errno, locale ...) that an earlier validation may have left behind
// in the worker cannot reach the grandchild, so "in-history outcome == pristine outcome" is decided by the address
// and the settings alone and a failing history replays from its case string in a new process.
#pragma once
#include "lib.hpp"
#include <sys/wait.h>
#include <unistd.h>
#include <map>
#include <vector>

namespace vf {

struct PItem { int mode, tld, allow; Bytes addr; };

class Pristine {
    int req[2] = {-1, -1}, rsp[2] = {-1, -1}; pid_t z = -1; const vapi *a = nullptr;
    std::map<std::string, v_outcome> memo;
    static bool rd(int fd, void *p, size_t n) { char *q = (char *) p; while (n) { ssize_t k = read(fd, q, n); if (k <= 0) { if (k < 0 && errno == EINTR) continue; return false; } q += k; n -= (size_t) k; } return true; }
    static bool wr(int fd, const void *p, size_t n) { const char *q = (const char *) p; while (n) { ssize_t k = write(fd, q, n); if (k <= 0) { if (k < 0 && errno == EINTR) continue; return false; } q += k; n -= (size_t) k; } return true; }
    [[noreturn]] void serve() {
        close(req[1]); close(rsp[0]);
        for (;;) {
            int n;
            if (!rd(req[0], &n, sizeof n)) _exit(0);
            std::vector<PItem> seq((size_t) n);
            for (auto &it : seq) {
                int hdr[4];
                if (!rd(req[0], hdr, sizeof hdr)) _exit(0);
                it.mode = hdr[0]; it.tld = hdr[1]; it.allow = hdr[2]; it.addr.assign((size_t) hdr[3], '\0');
                if (hdr[3] && !rd(req[0], &it.addr[0], it.addr.size())) _exit(0);
            }
            pid_t g = fork();
            if (g == 0) {
                v_outcome o; memset(&o, 0, sizeof o);
                for (auto &it : seq) { Obj ob(a); ob.configure(it.mode, it.tld, it.allow); o = ob.is_email(it.addr); }
                wr(rsp[1], &o, sizeof o); _exit(0);
            }
            int st = 0; while (waitpid(g, &st, 0) < 0 && errno == EINTR) {}
            if (g < 0 || !WIFEXITED(st) || WEXITSTATUS(st) != 0) { v_outcome o; memset(&o, 0, sizeof o); o.ret = -999; snprintf(o.errstr, sizeof o.errstr, "<pristine process died, status %d>", st); wr(rsp[1], &o, sizeof o); }
        }
    }
public:
    uint64_t queries = 0;
    // call before the first libeav call of this process
    bool start(const vapi *api) {
        a = api;
        if (pipe(req) || pipe(rsp)) return false;
        fflush(nullptr);
        z = fork();
        if (z < 0) return false;
        if (z == 0) serve();
        close(req[0]); close(rsp[1]);
        return true;
    }
    bool started() const { return z > 0; }
    v_outcome query(int mode, int tld, int allow, const Bytes &addr) {
        std::string key = std::to_string(mode) + "/" + std::to_string(tld) + "/" + std::to_string(allow) + "/" + addr;
        auto it = memo.find(key); if (it != memo.end()) return it->second;
        v_outcome o = query_seq({PItem{mode, tld, allow, addr}});
        if (memo.size() > 50000) memo.clear();
        return memo[key] = o;
    }
    // outcome of the LAST validation of `seq`, all run in order (one fresh object each) in one pristine process
    v_outcome query_seq(const std::vector<PItem> &seq) {
        v_outcome o; memset(&o, 0, sizeof o);
        int n = (int) seq.size(); bool ok = wr(req[1], &n, sizeof n);
        for (size_t i = 0; ok && i < seq.size(); i++) {
            int hdr[4] = {seq[i].mode, seq[i].tld, seq[i].allow, (int) seq[i].addr.size()};
            ok = wr(req[1], hdr, sizeof hdr) && (seq[i].addr.empty() || wr(req[1], seq[i].addr.data(), seq[i].addr.size()));
        }
        if (!ok || !rd(rsp[0], &o, sizeof o)) { fprintf(stderr, "pristine: helper process lost\n"); abort(); }
        queries++;
        return o;
    }
    void stop() { if (z > 0) { close(req[1]); close(rsp[0]); int st; waitpid(z, &st, 0); z = -1; } }
    ~Pristine() { stop(); }
};

} // namespace vf
