#!/usr/bin/env python3
"""Writes MANIFEST.json from tools/registry.py (single source of truth)."""
import json, os, sys
HERE = os.path.dirname(os.path.abspath(__file__)); VERIF = os.path.dirname(HERE)
sys.path.insert(0, HERE)
from registry import PROPS, NOT_APPLICABLE
props = [json.loads(l) for l in open(os.path.join(VERIF, "properties.jsonl"))]
checks = []
for p in props:
    pid = p["id"]
    if pid not in PROPS:
        continue
    P = PROPS[pid]
    checks.append(dict(
        property_id=pid,
        quick_cmd="python3 tools/check.py %s --tier quick" % pid,
        thorough_cmd="python3 tools/check.py %s --tier thorough" % pid,
        evidence_file="/verif/evidence/%s.json" % pid,
        replay_cmd_template="python3 tools/check.py %s --replay {path}" % pid,
        engine=P.get("engine", "rapidcheck + bounded-exhaustive enumerators (ASan+UBSan build)"),
        level_claimed=dict(category=P["level"], text=P["level_text"], design_ref=P.get("design_ref", "DESIGN.md section 5 / " + pid)),
        level_note=P["level_note"],
        technique=P["technique"]))
na = [dict(property_id=p["id"], reason=NOT_APPLICABLE.get(p["id"], "check not built yet (construction order: DESIGN.md Appendix F); no claim is made"))
      for p in props if p["id"] not in PROPS]
m = dict(version=1, setup_cmd="python3 tools/check.py --setup",
         hooks=dict(guard="LIBEAV_VERIF",
                    enable="no source hooks: checks build /repo's working tree with the repository's own Makefile (clang, ASan+UBSan); fault injection, "
                           "backend substitution and symbol isolation happen at link time (ld -r + objcopy), so the guard has nothing to switch",
                    baseline_off_cmd="tools/baseline.sh", source_commits=[], add_only=True),
         engines=[dict(name="rapidcheck", path="/usr/include/rapidcheck.h", serves_properties=sorted(PROPS), kind_free_text="property-based testing library (generators + shrinking), entropy-decoded structured generators"),
                  dict(name="libFuzzer", path="clang -fsanitize=fuzzer", serves_properties=[k for k in sorted(PROPS) if any(s.get('kind') == 'fuzz' for s in PROPS[k]['stages'])], kind_free_text="coverage-guided fuzzing with semantic oracles inside the target"),
                  dict(name="enumerators", path="/verif/props", serves_properties=sorted(PROPS), kind_free_text="bounded-exhaustive and automaton-derived case enumeration in the harness binaries")],
         checks=checks, not_applicable=na,
         notes="Driver: tools/check.py; design and per-property limits: DESIGN.md; genuine defects found and repaired: known_findings.txt.")
json.dump(m, open(os.path.join(VERIF, "MANIFEST.json"), "w"), indent=1)
print("MANIFEST.json: %d checks, %d not_applicable" % (len(checks), len(na)))
