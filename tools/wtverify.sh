#!/bin/sh
# wtverify.sh PID n demo  — verify a seeded change inside the agent's own worktree
PID=$1; N=$2; DEMO=$3; WT=/tmp/wt/${4:-$PID}
cd $WT || exit 9
git checkout -q -- . ; make clean >/dev/null 2>&1
run() { case "$DEMO" in *.sh) sh _seed/$DEMO >/tmp/wtv.out 2>&1;; *) make >/dev/null 2>&1; cc -I$WT/include _seed/$DEMO $WT/libeav.a -lidn2 -lpthread -o /tmp/wtv.demo 2>/tmp/wtv.out && /tmp/wtv.demo >>/tmp/wtv.out 2>&1;; esac; echo $?; }
make >/dev/null 2>&1
C0=$(run)
git apply _seed/change$N.diff || exit 8
make clean >/dev/null 2>&1; make >/dev/null 2>&1; make check >/tmp/wtv.check 2>&1; SUITE=$?
C1=$(run); tail -3 /tmp/wtv.out | cut -c1-200
git checkout -q -- . ; make clean >/dev/null 2>&1
echo "RESULT $PID-$N demo=$DEMO clean_exit=$C0 changed_exit=$C1 suite_rc_with_change=$SUITE pass_lines=$(grep -c ': PASS' /tmp/wtv.check)"
