#!/usr/bin/env python3
"""seedtable.py — regenerate the tables of DESIGN.md section 9 from seeded/*/meta.json (between the SEEDTABLE markers)."""
import os, re, json, glob
VERIF = os.path.dirname(os.path.dirname(os.path.abspath(__file__)))
def files_of(patch):
    fs = []
    for l in open(patch, errors="replace"):
        m = re.match(r"diff --git a/(\S+) b/", l)
        if m and m.group(1) not in fs and m.group(1) != "TODO": fs.append(m.group(1))
    return fs
def key(k): p, n = k.split("-"); return (p, int(n))
def main():
    metas = {}
    for mp in glob.glob(os.path.join(VERIF, "seeded", "*", "meta.json")):
        metas[os.path.basename(os.path.dirname(mp))] = json.load(open(mp))
    t1 = ["| change | what was missing in the first version of the check |", "|---|---|"]
    t2 = ["| change | round | files | detected by | note |", "|---|---|---|---|---|"]
    n = dict(total=0, confirmed=0, detected=0, missed_first=0, scope=0, thorough=0)
    for k in sorted(metas, key=key):
        m = metas[k]; n["total"] += 1
        rnd = m.get("round", 1 if int(k.split("-")[1]) <= 2 else 2)
        fs = files_of(os.path.join(VERIF, "seeded", k, "patch.diff")) if os.path.exists(os.path.join(VERIF, "seeded", k, "patch.diff")) else []
        ftxt = ", ".join("`%s`" % f for f in fs[:3]) + (" ..." if len(fs) > 3 else "")
        det = [c for c, v in m.get("checks", {}).items() if v.get("detected")]
        own = [c for c in det if c.startswith(m["property"] + "/")]
        if any(c.endswith("/quick") for c in own): own = [c for c in own if c.endswith("/quick")]
        shown = own + [c for c in det if not c.startswith(m["property"] + "/")]
        note = []
        if not m.get("confirmed"): note.append(m.get("not_kept", "not kept (existing suite fails)"))
        else: n["confirmed"] += 1
        if m.get("out_of_scope"): note.append("outside the property: " + m["out_of_scope"]); n["scope"] += 1
        elif m.get("confirmed") and det: n["detected"] += 1; n["thorough"] += not any(c.endswith("/quick") for c in own)
        if m.get("initially_missed"): note.append("initially missed"); n["missed_first"] += 1; t1.append("| %s | %s |" % (k, m.get("strengthening", "").replace("|", "\\|")))
        if m.get("rebased"): note.append("patch re-created after a later fix: commit")
        t2.append("| %s | %d | %s | %s | %s |" % (k, rnd, ftxt, ", ".join(shown) if shown else "-", "; ".join(note)))
    head = "<!-- counts: %s -->" % json.dumps(n)
    body = "\n".join([head, ""] + t1 + ["", "All changes, with the check that reports them (seed 1; `meta.json` has the counterexample):", ""] + t2)
    p = os.path.join(VERIF, "DESIGN.md"); s = open(p).read()
    a, b = "<!-- SEEDTABLE:BEGIN -->", "<!-- SEEDTABLE:END -->"
    i, j = s.index(a), s.index(b)
    open(p, "w").write(s[:i + len(a)] + "\n" + body + "\n" + s[j:])
    print(n)
if __name__ == "__main__": main()
