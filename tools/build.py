#!/usr/bin/env python3
"""build.py — builds libeav variants from the *current working tree* of /repo.

Every call makes a fresh scratch copy of the repository (VERIF_REPO_DIR
overrides /repo for the sensitivity self-test), builds each requested variant
with the repository's own Makefile, compiles the shim with the variant's -D
flags (scraped from the compile line make printed for src/eav.c), merges shim
and libeav.a into one relocatable object and localises every symbol except
`<prefix>_api`, so that many variants link into one harness process.
"""
import os, re, shutil, subprocess, sys, tempfile, concurrent.futures as cf

VERIF = os.path.dirname(os.path.dirname(os.path.abspath(__file__)))
REPO = os.environ.get("VERIF_REPO_DIR", "/repo")

SAN = "-O1 -g -fno-omit-frame-pointer -fsanitize=address,undefined -fno-sanitize-recover=undefined"
FUZZ = SAN + " -fsanitize=fuzzer-no-link"
TSAN = "-O1 -g -fno-omit-frame-pointer -fsanitize=thread"
PLAIN = "-O1 -gdwarf-4 -fno-omit-frame-pointer"

ADAPT = os.path.join(VERIF, "adapters")

def _opt(bits):
    r5322, r20, under = bits
    mv = {}
    mv["RFC6531_FOLLOW_RFC5322"] = "ON" if r5322 else "OFF"
    mv["RFC6531_FOLLOW_RFC20"] = "ON" if r20 else "OFF"
    mv["LABELS_ALLOW_UNDERSCORE"] = "ON" if under else "OFF"
    return mv

# name -> spec.  cflags: sanitizer set; makevars: passed on make's command line;
# extra_cflags: appended to CFLAGS; redefine: objcopy --redefine-sym pairs
VARIANTS = {
    "dflt":   dict(cflags=SAN),
    "dfuzz":  dict(cflags=FUZZ),
    "extra":  dict(cflags=SAN, extra_cflags="-DEAV_EXTRA"),
    "uchar":  dict(cflags=SAN, extra_cflags="-funsigned-char"),     # plain char unsigned, as on ARM / PowerPC
    "efuzz":  dict(cflags=FUZZ, extra_cflags="-DEAV_EXTRA"),
    "plain":  dict(cflags=PLAIN),
    "pextra": dict(cflags=PLAIN, extra_cflags="-DEAV_EXTRA"),
    "tsan":   dict(cflags=TSAN),
    "pfault": dict(cflags=PLAIN, redefine=[("idn2_to_ascii_8z", "vfault_to_ascii_8z")]),
    "fault":  dict(cflags=SAN, redefine=[("idn2_to_ascii_8z", "vfault_to_ascii_8z")]),
    "xfault": dict(cflags=SAN, extra_cflags="-DEAV_EXTRA", redefine=[("idn2_to_ascii_8z", "vfault_to_ascii_8z")]),
    "ffuzz":  dict(cflags=FUZZ, redefine=[("idn2_to_ascii_8z", "vfault_to_ascii_8z")]),
    "b_idn2": dict(cflags=SAN, makevars={"FORCE_IDN": "idn2"}),
    "b_idn":  dict(cflags=SAN, makevars={"FORCE_IDN": "idn",
                   "DEFS": "-DHAVE_LIBIDN -I%s/idn" % ADAPT}),
    "b_idnkit": dict(cflags=SAN, makevars={"FORCE_IDN": "idnkit",
                   "DEFS": "-DHAVE_IDNKIT -I%s/idnkit" % ADAPT}),
}
for r5322 in (0, 1):
    for r20 in (0, 1):
        for under in (0, 1):
            VARIANTS["o%d%d%d" % (r5322, r20, under)] = dict(
                cflags=SAN, makevars=_opt((r5322, r20, under)))
            VARIANTS["f%d%d%d" % (r5322, r20, under)] = dict(
                cflags=FUZZ, makevars=_opt((r5322, r20, under)))

COPY_EXCLUDES = ["--exclude=.git", "--exclude=*.o", "--exclude=*.a", "--exclude=*.so",
                 "--exclude=*.bin", "--exclude=/bin/eav", "--exclude=/bin/eav.static",
                 "--exclude=*.gcda", "--exclude=*.gcno", "--exclude=/coverage"]


def run(cmd, cwd=None, env=None, check=True):
    p = subprocess.run(cmd, cwd=cwd, env=env, stdout=subprocess.PIPE,
                       stderr=subprocess.STDOUT, text=True, errors="replace")
    if check and p.returncode != 0:
        sys.stderr.write("BUILD FAILED: %s\n%s\n" % (" ".join(cmd), p.stdout[-6000:]))
        raise SystemExit(2)
    return p


class Scratch:
    """A scratch directory holding one pristine source copy (`src`) plus one
    build copy per variant.  Removed on close()."""

    def __init__(self, repo=None):
        self.repo = repo or REPO
        base = os.environ.get("TMPDIR", "/tmp")
        self.dir = tempfile.mkdtemp(prefix="verif.", dir=base)
        self.src = os.path.join(self.dir, "src")
        run(["rsync", "-a"] + COPY_EXCLUDES + [self.repo + "/", self.src + "/"])
        self.objs = {}

    def close(self):
        shutil.rmtree(self.dir, ignore_errors=True)

    def __enter__(self):
        return self

    def __exit__(self, *a):
        if not os.environ.get("VERIF_KEEP_SCRATCH"):
            self.close()

    # ------------------------------------------------------------------
    def _copy(self, name, with_data=False):
        d = os.path.join(self.dir, "v_" + name)
        ex = [] if with_data else ["--exclude=/data", "--exclude=/docs", "--exclude=/tests"]
        run(["rsync", "-a"] + ex + [self.src + "/", d + "/"])
        return d

    def build_variant(self, name):
        spec = VARIANTS[name]
        d = self._copy(name)
        cflags = spec["cflags"] + " " + spec.get("extra_cflags", "")
        cmd = ["make", "static", "CC=clang", "CFLAGS=" + cflags.strip()]
        for k, v in spec.get("makevars", {}).items():
            cmd.append("%s=%s" % (k, v))
        env = dict(os.environ)
        for k in ("RFC6531_FOLLOW_RFC5322", "RFC6531_FOLLOW_RFC20", "LABELS_ALLOW_UNDERSCORE",
                  "FORCE_IDN", "DEFS", "CFLAGS", "CPPFLAGS", "LDFLAGS", "MAKEFLAGS"):
            env.pop(k, None)
        p = run(cmd, cwd=d, env=env)
        # scrape the flags make really used for src/eav.c
        flags = None
        for line in p.stdout.splitlines():
            if re.search(r"-c\s+src/eav\.c", line) and line.lstrip().startswith("clang"):
                toks = line.split()
                flags = [t for t in toks if t.startswith("-D") or t.startswith("-I")]
                break
        if flags is None:
            sys.stderr.write("could not find compile line for src/eav.c in make output\n" + p.stdout[-3000:])
            raise SystemExit(2)
        lib = os.path.join(d, "libeav.a")
        if not os.path.exists(lib):
            sys.stderr.write("libeav.a missing after make static\n")
            raise SystemExit(2)
        shim_o = os.path.join(d, "vshim.o")
        run(["clang"] + spec["cflags"].split() + spec.get("extra_cflags", "").split() + flags +
            ["-I" + os.path.join(VERIF, "shim"), "-DVPREFIX=" + name, "-Wall",
             "-c", os.path.join(VERIF, "shim", "vshim.c"), "-o", shim_o], cwd=d)
        out = os.path.join(self.dir, name + ".o")
        run(["ld", "-r", "-o", out, shim_o, "--whole-archive", lib], cwd=d)
        oc = ["objcopy", "--keep-global-symbol=%s_api" % name]
        for a, b in spec.get("redefine", []):
            oc.append("--redefine-sym=%s=%s" % (a, b))
        run(oc + [out])
        shutil.rmtree(d, ignore_errors=True)
        self.objs[name] = out
        return out

    def build_variants(self, names):
        names = [n for n in names if n not in self.objs]
        with cf.ThreadPoolExecutor(max_workers=min(16, max(1, len(names)))) as ex:
            list(ex.map(self.build_variant, names))
        return [self.objs[n] for n in names]

    def build_default_novars(self):
        """libeav.a built by a bare `make static` (compiler/flags only): used by
        C17 to pin the Makefile defaults of the three options."""
        return self.build_variant("dflt")

    def build_cli(self, cflags=SAN):
        """bin/eav (the CLI) built by `make app` with sanitizers; returns (exe, libdir)."""
        d = self._copy("cli", with_data=False)
        env = dict(os.environ)
        for k in ("CFLAGS", "CPPFLAGS", "LDFLAGS", "MAKEFLAGS", "DEFS"):
            env.pop(k, None)
        run(["make", "app", "CC=clang", "CFLAGS=" + cflags, "LDFLAGS=" + cflags], cwd=d, env=env)
        exe = os.path.join(d, "bin", "eav")
        lib = os.path.join(d, "libeav.so")
        if not os.path.exists(exe) or not os.path.exists(lib):
            sys.stderr.write("bin/eav or libeav.so missing after make app\n")
            raise SystemExit(2)
        outd = os.path.join(self.dir, "cli")
        os.makedirs(outd, exist_ok=True)
        shutil.copy2(exe, os.path.join(outd, "eav"))
        shutil.copy2(lib, os.path.join(outd, "libeav.so"))
        shutil.rmtree(d, ignore_errors=True)
        return os.path.join(outd, "eav"), outd


if __name__ == "__main__":
    os.environ["VERIF_KEEP_SCRATCH"] = "1"
    with Scratch() as s:
        print(s.build_variants(sys.argv[1:] or ["dflt"]))
        print(s.dir)
