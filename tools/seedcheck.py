#!/usr/bin/env python3
"""seedcheck.py <PID> <n> [--checks C01,C15] [--tier quick]

Confirms a seeded change delivered by a sub-agent in /tmp/wt/<PID>/_seed/ (change<n>.diff +
demo<n>.c|.sh): (1) it applies to a clean copy of /repo, builds, and `make check` stays green;
(2) its demonstration passes without the change and fails with it; then (3) runs the given
checks (default: the property's own quick check) against the changed copy (VERIF_REPO_DIR) and
records everything in /verif/seeded/<PID>-<n>/ (patch.diff, demo, meta.json).
Nothing is ever applied to /repo itself.
"""
import os, sys, json, shutil, subprocess, tempfile, argparse, glob, re

VERIF = os.path.dirname(os.path.dirname(os.path.abspath(__file__)))


def sh(cmd, cwd=None, env=None, timeout=3600):
    p = subprocess.run(cmd, cwd=cwd, env=env, shell=isinstance(cmd, str), stdout=subprocess.PIPE, stderr=subprocess.STDOUT, text=True, errors="replace", timeout=timeout)
    return p.returncode, p.stdout


def make_copy(patch=None):
    d = tempfile.mkdtemp(prefix="seedchk.", dir="/tmp")
    sh(["rsync", "-a", "--exclude=.git", "--exclude=*.o", "--exclude=*.a", "--exclude=*.so", "--exclude=*.bin", "--exclude=/bin/eav", "--exclude=_seed", "/repo/", d + "/"])
    if patch:
        rc, out = sh(["patch", "-p1", "--no-backup-if-mismatch", "-i", patch], cwd=d)
        if rc != 0:
            raise SystemExit("patch does not apply: " + out)
    return d


def build_and_suite(d, make_args=""):
    rc, out = sh("make %s >/dev/null 2>&1 && make %s check 2>&1" % (make_args, make_args), cwd=d)
    npass = out.count(": PASS")
    rc2, _ = sh("make %s check >/dev/null 2>&1" % make_args, cwd=d)
    return rc2 == 0, npass, out[-600:]


def run_demo(demo, d, seeddir):
    """demos hard-code /tmp/wt/<PID> paths: rewrite them to the copy `d`."""
    src = open(demo, errors="replace").read()
    wt = os.path.dirname(seeddir.rstrip("/"))
    src = src.replace(wt, d)
    work = tempfile.mkdtemp(prefix="demo.", dir=d)
    name = os.path.basename(demo)
    path = os.path.join(work, name)
    open(path, "w").write(src)
    env = dict(os.environ, LD_LIBRARY_PATH=d)
    if name.endswith(".c"):
        extra = ""
        m = re.search(r"(?:cc|gcc|clang)\s+([^\n]*?%s[^\n]*)" % re.escape(name), src)
        flags = "-pthread -ldl"
        if "-DEAV_EXTRA" in src.split("*/")[0]:
            flags += " -DEAV_EXTRA"
        rc, out = sh("cc -O1 -g -I%s/include -I%s %s %s/libeav.a -lidn2 %s -o %s/demo" % (d, d, path, d, flags, work), cwd=work)
        if rc != 0:
            return None, "demo does not compile: " + out[-800:]
        rc, out = sh([work + "/demo"], cwd=d, env=env, timeout=600)
    else:
        os.chmod(path, 0o755)
        rc, out = sh(["sh", path], cwd=d, env=env, timeout=900)
    return rc, out[-800:]


def main():
    ap = argparse.ArgumentParser()
    ap.add_argument("pid"); ap.add_argument("n", type=int)
    ap.add_argument("--checks"); ap.add_argument("--tier", default="quick"); ap.add_argument("--make-args", default="")
    ap.add_argument("--skip-verify", action="store_true"); ap.add_argument("--seed", default="1")
    ap.add_argument("--wt", help="worktree name under /tmp/wt (default: the property id)"); ap.add_argument("--as", dest="as_n", type=int, help="number under which the change is stored")
    a = ap.parse_args()
    wt = a.wt or a.pid
    seeddir = "/tmp/wt/%s/_seed" % wt
    out = os.path.join(VERIF, "seeded", "%s-%d" % (a.pid, a.as_n or a.n))
    have = os.path.exists(os.path.join(out, "patch.diff"))
    if not have:
        os.makedirs(out, exist_ok=True)
        shutil.copy2(os.path.join(seeddir, "change%d.diff" % a.n), os.path.join(out, "patch.diff"))
        for f in glob.glob(os.path.join(seeddir, "demo%d.*" % a.n)) + glob.glob(os.path.join(seeddir, "stub*")) + glob.glob(os.path.join(seeddir, "*.pm")) + glob.glob(os.path.join(seeddir, "check8.sh")):
            if os.path.isdir(f):
                shutil.copytree(f, os.path.join(out, os.path.basename(f)), dirs_exist_ok=True)
            else:
                shutil.copy2(f, out)
        if os.path.exists(os.path.join(seeddir, "README.md")):
            shutil.copy2(os.path.join(seeddir, "README.md"), os.path.join(out, "agent-README.md"))
    patch = os.path.join(out, "patch.diff")
    demos = [f for f in glob.glob(os.path.join(out, "demo%d.*" % a.n))]
    metap = os.path.join(out, "meta.json")
    meta = json.load(open(metap)) if os.path.exists(metap) else dict(property=a.pid, change=a.as_n or a.n, round=2 if a.wt else 1, checks={})
    clean, changed = make_copy(), make_copy(patch)
    try:
        if not a.skip_verify:
            ok0, n0, t0 = build_and_suite(clean, a.make_args)
            ok1, n1, t1 = build_and_suite(changed, a.make_args)
            meta["suite_clean"] = dict(green=ok0, pass_lines=n0)
            meta["suite_changed"] = dict(green=ok1, pass_lines=n1, tail=None if ok1 else t1)
            meta["demo"] = {}
            for demo in demos:
                seedsrc = seeddir
                r0 = run_demo(demo, clean, seedsrc); r1 = run_demo(demo, changed, seedsrc)
                meta["demo"][os.path.basename(demo)] = dict(clean_exit=r0[0], changed_exit=r1[0], changed_output=r1[1][-400:] if r1[1] else None,
                                                            clean_output=None if r0[0] == 0 else r0[1])
            meta["confirmed"] = bool(ok0 and ok1 and n0 == n1 and demos and all(v["clean_exit"] == 0 and v["changed_exit"] not in (0, None) for v in meta["demo"].values()))
            print("suite clean/changed green: %s/%s (%d/%d PASS lines); demos: %s; CONFIRMED=%s" % (ok0, ok1, n0, n1, {k: (v["clean_exit"], v["changed_exit"]) for k, v in meta["demo"].items()}, meta["confirmed"]))
        checks = (a.checks.split(",") if a.checks else [a.pid])
        for c in checks:
            env = dict(os.environ, VERIF_REPO_DIR=changed, VERIF_SEED=a.seed)
            rc, o = sh(["python3", os.path.join(VERIF, "tools", "check.py"), c, "--tier", a.tier, "--no-evidence"], env=env, timeout=7200)
            viol = [l for l in o.split("\n") if l.startswith("VIOLATION")]
            ce = [l for l in o.split("\n") if l.startswith("counterexample")]
            meta["checks"]["%s/%s" % (c, a.tier)] = dict(exit=rc, detected=(rc == 1 and bool(viol)), counterexample=(ce[0][:500] if ce else None))
            print("  check %s (%s): exit %d %s %s" % (c, a.tier, rc, "DETECTED" if rc == 1 and viol else "missed" if rc == 0 else "INFRA", (ce[0][:220] if ce else "")))
            for v in viol:  # replay files written for seeded changes are not kept
                f = v.split("replay=")[-1].strip()
                if os.path.exists(f) and "/regress/" not in f:
                    os.unlink(f)
        json.dump(meta, open(metap, "w"), indent=1)
    finally:
        shutil.rmtree(clean, ignore_errors=True); shutil.rmtree(changed, ignore_errors=True)


if __name__ == "__main__":
    main()
