"""runners.py — stage runners that are not plain harness processes: libFuzzer campaigns,
valgrind memcheck replays, callgrind work measurements, CLI subprocess runs."""
import os, sys, json, glob, struct, hashlib, subprocess, shutil, re

HERE = os.path.dirname(os.path.abspath(__file__))
VERIF = os.path.dirname(HERE)


def _san_env():
    from check import san_env
    return san_env()


def _seed(seed, *parts):
    h = hashlib.sha256(("/".join(str(p) for p in (seed,) + parts)).encode()).digest()
    return struct.unpack("<I", h[:4])[0] % (2 ** 31 - 2) + 1


def data_lines(datadir, names=None):
    out = []
    for fn in sorted(os.listdir(datadir)):
        if not fn.endswith(".txt") or (names and fn not in names):
            continue
        if fn == "tld-domains.txt":
            continue
        for line in open(os.path.join(datadir, fn), "rb").read().split(b"\n"):
            line = line.rstrip(b"\r")
            if line and not line.startswith(b"#") and b"\0" not in line:
                out.append(line)
    return out


def result(stage, worker, rc, data, log):
    return dict(worker=worker, rc=rc, data=data, log=log, cmd=[])


def empty_data(stage, worker):
    return dict(stage=stage, worker=worker, evaluations=0, nontrivial_local=0, nt_capped=False, health_fail=False, classes={}, samples={}, known_hits={},
                exhaustive=[], notes=[], failures=[])


# --------------------------------------------------------------------------- libFuzzer
def run_fuzz(ctx, exe, st, tier, seed, outdir, datadir, known, pid):
    n = st.get("workers", 16)
    runs = st["thorough"] if tier == "thorough" else st["quick"]
    seeds = data_lines(datadir)
    for rf in glob.glob(os.path.join(VERIF, "replays", "regress", "*.json")):
        try:
            c = json.load(open(rf))["case"]
            for tok in c.split():
                if "=x" in tok:
                    seeds.append(bytes.fromhex(tok.split("=x", 1)[1]))
        except Exception:
            pass
    procs = []
    for i in range(n):
        wd = os.path.join(outdir, "fuzz-%s-%d" % (st["name"], i))
        corpus = os.path.join(wd, "corpus")
        os.makedirs(corpus, exist_ok=True)
        if i % 2 == 0:   # half of the workers start from the repository's inputs, half from an empty corpus
            for k, s in enumerate(seeds):
                open(os.path.join(corpus, "seed%04d" % k), "wb").write(s + st.get("seed_suffix", b"\x00"))
        env = _san_env()
        env.update(VF_OUT=outdir, VF_STAGE=st["name"], VF_WORKER=str(i), VF_DATA=datadir)
        env["ASAN_OPTIONS"] += ":detect_leaks=1"
        cmd = [exe, "-runs=%d" % runs, "-seed=%d" % _seed(seed, pid, st["name"], i), "-max_len=%d" % st.get("max_len", 400), "-len_control=20",
               "-artifact_prefix=" + wd + "/", "-print_final_stats=1", "-timeout=60", "-rss_limit_mb=3000", "-use_value_profile=1"]
        if st.get("dict"):
            cmd.append("-dict=" + os.path.join(VERIF, st["dict"]))
        cmd.append(corpus)
        lf = open(os.path.join(outdir, "%s-%d.log" % (st["name"], i)), "wb")
        procs.append((i, subprocess.Popen(cmd, stdout=lf, stderr=subprocess.STDOUT, env=env, cwd=wd), lf, wd))
    res = []
    for i, p, lf, wd in procs:
        rc = p.wait()
        lf.close()
        log = open(os.path.join(outdir, "%s-%d.log" % (st["name"], i)), "rb").read().decode("utf-8", "replace")
        jpath = os.path.join(outdir, "%s-%d.json" % (st["name"], i))
        data = json.load(open(jpath)) if os.path.exists(jpath) else empty_data(st["name"], i)
        m = re.search(r"stat::number_of_executed_units:\s*(\d+)", log)
        if m:
            data["classes"]["libfuzzer-executed-units"] = int(m.group(1))
        arts = [a for a in glob.glob(os.path.join(wd, "crash-*")) + glob.glob(os.path.join(wd, "leak-*"))]
        for a in ([] if data["failures"] else arts[:3]):   # an oracle trap already recorded its own case
            b = open(a, "rb").read()
            if not any(f["case"] == "fuzz=x" + b.hex() for f in data["failures"]):
                data["failures"].append(dict(cls="fuzz-crash" if "crash-" in a else "fuzz-leak", case="fuzz=x" + b.hex(),
                                             explain="libFuzzer artifact %s: %s" % (os.path.basename(a), log[-900:])))
        if arts or data["failures"]:
            rc = 3
        elif rc != 0:
            # slow-unit / timeout / oom are load noise, never a verdict
            if glob.glob(os.path.join(wd, "timeout-*")) or glob.glob(os.path.join(wd, "oom-*")) or glob.glob(os.path.join(wd, "slow-unit-*")):
                data["notes"].append("libFuzzer stopped on timeout/oom/slow-unit (load noise, ignored)")
                rc = 0
        shutil.rmtree(os.path.join(wd, "corpus"), ignore_errors=True)
        res.append(result(st["name"], i, rc, data, log))
    return res


# --------------------------------------------------------------------------- valgrind memcheck
def run_valgrind(ctx, exe, st, tier, seed, outdir, datadir, known, pid):
    n = st.get("workers", 16)
    inputs = os.path.join(outdir, "vg_inputs.hex")
    count = st["thorough"] if tier == "thorough" else st["quick"]
    # inputs: repository lines + addresses emitted by the C06 harness generator (rapidcheck, VERIF_SEED)
    lines = [l.hex() for l in data_lines(datadir)]
    emit = os.path.join(outdir, "emit.hex")
    env = _san_env()
    env["RC_PARAMS"] = "seed=%d max_success=%d" % (_seed(seed, pid, "emit"), max(1, count - len(lines)))
    subprocess.run([ctx["exes"]["c06"], "--stage", "emit", "--worker", "0/1", "--out", outdir, "--data", datadir, "--budget", "1"], env=env,
                   stdout=subprocess.DEVNULL, stderr=subprocess.DEVNULL)
    if os.path.exists(emit):
        lines += [l.strip() for l in open(emit) if l.strip()]
    lines = lines[:count] if len(lines) > count else lines
    open(inputs, "w").write("\n".join(lines) + "\n")
    procs = []
    for i in range(n):
        prog = os.path.join(outdir, "vg-progress-%d" % i)
        logf = os.path.join(outdir, "%s-%d.log" % (st["name"], i))
        cmd = ["valgrind", "-q", "--error-exitcode=99", "--track-origins=yes", "--leak-check=full", "--errors-for-leak-kinds=definite,indirect",
               "--log-file=" + logf, exe, inputs, prog, str(i), str(n)]
        procs.append((i, subprocess.Popen(cmd, stdout=subprocess.DEVNULL, stderr=subprocess.DEVNULL), prog, logf))
    res = []
    for i, p, prog, logf in procs:
        rc = p.wait()
        log = open(logf, "rb").read().decode("utf-8", "replace") if os.path.exists(logf) else ""
        data = empty_data(st["name"], i)
        pl = open(prog).read().split("\n") if os.path.exists(prog) else []
        idxs = [int(x) for x in pl if x.strip().isdigit()]
        data["evaluations"] = len(idxs) * 2 * (8 * 4 + 12)
        hashes = set()
        for k in idxs:
            hashes.add(struct.unpack("<Q", hashlib.sha256(lines[k].encode()).digest()[:8])[0])
        with open(os.path.join(outdir, "%s-%d.hashes" % (st["name"], i)), "wb") as hf:
            for h in sorted(hashes):
                hf.write(struct.pack("<Q", h))
        data["nontrivial_local"] = len(hashes)
        data["classes"]["valgrind-inputs"] = len(idxs)
        if idxs:
            data["samples"]["valgrind input"] = [bytes.fromhex(lines[idxs[len(idxs) // 2]]).decode("utf-8", "replace")[:100]]
        if rc == 99 or "uninitialised" in log or "Invalid " in log or "definitely lost" in log:
            culprit = idxs[-1] if idxs else 0
            # uninitialised-value errors are reported when the value is *used*; the in-flight input is the last one started
            data["failures"].append(dict(cls="valgrind-uninit" if "uninitialised" in log else "valgrind-memory", case="vg=x" + lines[culprit],
                                         explain="valgrind memcheck (plain build, eav_t from malloc, real libidn2): " + log[:1500]))
            rc = 3
        elif rc != 0:
            data["notes"].append("valgrind exit %d" % rc)
        res.append(result(st["name"], i, rc, data, log))
    return res


def replay_valgrind(ctx, case):
    exe = ctx["exes"]["vgreplay"]
    d = os.path.join(ctx["scr"].dir, "out")
    os.makedirs(d, exist_ok=True)
    inp = os.path.join(d, "replay.hex")
    open(inp, "w").write(case.split("vg=x", 1)[1].split()[0] + "\n")
    logf = os.path.join(d, "replay-vg.log")
    p = subprocess.run(["valgrind", "-q", "--error-exitcode=99", "--track-origins=yes", "--leak-check=full", "--errors-for-leak-kinds=definite,indirect",
                        "--log-file=" + logf, exe, inp, os.path.join(d, "replay-progress")], stdout=subprocess.PIPE, stderr=subprocess.STDOUT, text=True)
    log = open(logf).read() if os.path.exists(logf) else ""
    bad = p.returncode == 99 or "uninitialised" in log or "Invalid " in log or "definitely lost" in log
    return (3 if bad else 0), ("REPLAY-FAIL " if bad else "REPLAY-PASS ") + log[:1200]


# --------------------------------------------------------------------------- callgrind (linear time)
ENTRY_NAMES = ["is_822_local", "is_5321_local", "is_5322_local", "is_6531_local", "is_ascii_domain", "is_utf8_domain", "is_ipv4", "is_ipv6", "is_ipaddr", "is_tld",
               "is_special_domain", "is_822_email", "is_5321_email", "is_5322_email", "is_6531_email", "eav_is_email[822]", "eav_is_email[5321]", "eav_is_email[5322]", "eav_is_email[6531]"]


def callgrind_measure(exe, wd, first, step, sizes):
    os.makedirs(wd, exist_ok=True)
    cmd = ["valgrind", "--tool=callgrind", "-q", "--callgrind-out-file=" + os.path.join(wd, "cg.out"), "--dump-instr=no", "--collect-jumps=no", "--cache-sim=no",
           exe, str(first), str(step), ",".join(str(s) for s in sizes)]
    p = subprocess.run(cmd, stdout=subprocess.PIPE, stderr=subprocess.STDOUT, text=True, cwd=wd)
    meas = {}
    for f in glob.glob(os.path.join(wd, "cg.out*")):
        trig, tot = None, None
        for line in open(f, errors="replace"):
            if line.startswith("desc: Trigger:"):
                m = re.search(r"(e\d+_k\d+_n\d+)", line)
                trig = m.group(1) if m else None
            elif line.startswith("totals:") or line.startswith("summary:"):
                tot = int(line.split()[1])
        if trig and tot is not None:
            e, k, nn = re.match(r"e(\d+)_k(\d+)_n(\d+)", trig).groups()
            meas[(int(e), int(k), int(nn))] = tot
        os.unlink(f)
    return p.returncode, p.stdout, meas


def judge_linear(meas, sizes):
    """I(2n) - I(0) <= 2.5 (I(n) - I(0)) + 20*(2n) + 1e4  and  I(n) - I(0) <= 1000 n + 1e5.
    The 20-instructions-per-byte allowance absorbs libc's vectorised string routines, whose cost per byte
    varies with alignment; any pass with >= 1 instruction per byte pair (c n^2, c >= 0.001) still fails."""
    fails, evals = [], 0
    keys = sorted({(e, k) for (e, k, n) in meas})
    for e, k in keys:
        base = meas.get((e, k, sizes[0]))
        if base is None:
            continue
        for n in sizes[1:]:
            i = meas.get((e, k, n))
            if i is None:
                continue
            evals += 1
            if i - base > 1000 * n + 100000:
                fails.append((e, k, n, "I(%d)-I(%d) = %d instructions > 1000*n + 1e5" % (n, sizes[0], i - base)))
            i2 = meas.get((e, k, 2 * n))
            if i2 is not None and max(0, i2 - base) > 2.5 * max(0, i - base) + 20 * (2 * n) + 10000:
                fails.append((e, k, n, "doubling n from %d to %d multiplies the work by %.2f (I=%d -> %d, base %d): super-linear" % (n, 2 * n, (i2 - base) / max(1, i - base), i, i2, base)))
    return fails, evals


def run_callgrind(ctx, exe, st, tier, seed, outdir, datadir, known, pid):
    n = st.get("workers", 16)
    sizes = [16, 4096, 8192, 16384, 32768, 65536] if tier == "thorough" else [16, 8192, 16384, 32768]
    import concurrent.futures as cf
    def one(i):
        return callgrind_measure(exe, os.path.join(outdir, "cg-%d" % i), i, n, sizes)
    with cf.ThreadPoolExecutor(max_workers=n) as ex:
        outs = list(ex.map(one, range(n)))
    res = []
    for i, (rc, log, meas) in enumerate(outs):
        data = empty_data(st["name"], i)
        fails, evals = judge_linear(meas, sizes)
        data["evaluations"] = len(meas)
        hashes = {struct.unpack("<Q", hashlib.sha256(repr(k).encode()).digest()[:8])[0] for k in meas if k[2] >= 4096}
        with open(os.path.join(outdir, "%s-%d.hashes" % (st["name"], i)), "wb") as hf:
            for h in sorted(hashes):
                hf.write(struct.pack("<Q", h))
        data["nontrivial_local"] = len(hashes)
        data["classes"]["callgrind-measurements"] = len(meas)
        data["classes"]["linearity-comparisons"] = evals
        ex = sorted(meas.items())[:1]
        if meas:
            big = max(meas.items(), key=lambda kv: kv[1])
            data["samples"]["callgrind"] = ["%s shape %d n=%d: %d instructions" % (ENTRY_NAMES[big[0][0]], big[0][1], big[0][2], big[1])]
        for e, k, nn, why in fails[:3]:
            data["failures"].append(dict(cls="super-linear-work", case="cg=%d:%d" % (e, k), explain="%s on input shape %d: %s" % (ENTRY_NAMES[e], k, why)))
        if rc != 0 and not meas:
            data["notes"].append("callgrind run failed: " + log[-300:])
            res.append(result(st["name"], i, 2, None, log))
            continue
        if i == 0:
            data["exhaustive"].append(dict(space="C06 work measurement: %d entry points x 22 input shapes x sizes %s (instruction counts, deterministic)" % (len(ENTRY_NAMES), sizes), size=len(ENTRY_NAMES) * 22 * len(sizes)))
        res.append(result(st["name"], i, 3 if data["failures"] else 0, data, log))
    return res


def replay_callgrind(ctx, case):
    e, k = [int(x) for x in case.split("cg=", 1)[1].split()[0].split(":")]
    sizes = [16, 4096, 8192, 16384, 32768, 65536]
    rc, log, meas = callgrind_measure(ctx["exes"]["work"], os.path.join(ctx["scr"].dir, "out", "cg-replay"), e * 22 + k, 19 * 22, sizes)
    fails, _ = judge_linear(meas, sizes)
    if fails:
        return 3, "REPLAY-FAIL " + "; ".join(f[3] for f in fails[:3])
    return (0 if meas else 2), "REPLAY-PASS %d measurements" % len(meas)
