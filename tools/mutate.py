#!/usr/bin/env python3
"""mutate.py — classical mutation analysis of libeav as a sensitivity measurement of the checks
(not a registered check; nothing here touches /repo: every mutant lives in a scratch copy).

  mutate.py gen   [--files F ...]                 list the mutants (JSON lines on stdout)
  mutate.py run   [--out DIR] [--jobs N] [--limit K] [--sample M] [--files F ...] [--max-checks C]
        phase A (parallel): build each mutant and run the maintainers' suite (`make clean && make && make check`);
        phase B (sequential): for every mutant that compiles and keeps the suite green, run the quick checks of the
        properties anchored in the mutated file (then a few broad ones) until one reports a VIOLATION.
  mutate.py report [--out DIR]                    summary table

Operators: relational (< <= > >= == !=), logical (&& ||), integer constants +-1, YES/NO and true/false swapped,
statement deletion (simple statements, break, continue), `!` removed in `if (!`.  Comments, string and character
literals and preprocessor lines are never touched.  src/auto_tld.c (generated table) is mutated on a sample of rows only.
"""
import os, re, sys, json, glob, time, shutil, hashlib, argparse, subprocess, tempfile
import concurrent.futures as cf

VERIF = os.path.dirname(os.path.dirname(os.path.abspath(__file__)))
REPO = os.environ.get("VERIF_REPO_DIR", "/repo")
DEFAULT_FILES = ["src/is_822_local.c", "src/is_5321_local.c", "src/is_5322_local.c", "src/is_6531_local.c", "src/utf8_decode.c",
                 "src/is_ascii_domain.c", "src/is_ipv4_ipv6.c", "src/is_special_domain.c", "src/is_tld.c", "src/eav.c",
                 "src/is_822_email.c", "src/is_5321_email.c", "src/is_5322_email.c", "src/is_email.c",
                 "partial/idn2/eav.c", "partial/idn2/is_utf8_domain.c", "partial/idn2/is_6531_email.c",
                 "include/eav/private_email.h", "include/eav/private.h", "bin/main.c", "bin/main.h", "src/auto_tld.c"]
BROAD = ["C01", "C16", "C15", "C06", "C13"]


def code_mask(text):
    """True for characters that are code (not comment, not string/char literal, not a preprocessor line)"""
    n = len(text); mask = [True] * n; i = 0; bol = True
    while i < n:
        c = text[i]
        if bol and c in " \t": i += 1; continue
        if bol and c == "#":
            j = i
            if re.match(r"#\s*define\b", text[i:i + 20]):      # the body of a multi-line macro is code: only its first line is skipped
                while j < n and text[j] != "\n": j += 1
            else:
                while j < n and not (text[j] == "\n" and text[j - 1] != "\\"): j += 1
            for k in range(i, j): mask[k] = False
            i = j; continue
        bol = False
        if c == "\n": bol = True; i += 1; continue
        if text.startswith("/*", i):
            j = text.find("*/", i + 2); j = n if j < 0 else j + 2
            for k in range(i, j): mask[k] = False
            i = j; continue
        if text.startswith("//", i):
            j = text.find("\n", i); j = n if j < 0 else j
            for k in range(i, j): mask[k] = False
            i = j; continue
        if c in "\"'":
            j = i + 1
            while j < n and text[j] != c:
                j += 2 if text[j] == "\\" else 1
            j = min(n, j + 1)
            for k in range(i, j): mask[k] = False
            i = j; continue
        i += 1
    return mask


DECL = re.compile(r"^\s*(static|const|extern|unsigned|signed|int|char|size_t|bool|long|short|struct|typedef|enum|void|eav_\w+\s|idn\w*\s|uint\d+_t|int\d+_t|reserved_t|tld_t|FILE|utf8_decode_t|register)\b")


def mutants_of(path, text):
    out = []
    mask = code_mask(text)
    def ok(a, b): return all(mask[a:b])
    def add(a, b, new, op):
        line = text.count("\n", 0, a) + 1
        out.append(dict(file=path, pos=a, end=b, old=text[a:b], new=new, op=op, line=line))
    if path.endswith("auto_tld.c"):
        rows = [m for m in re.finditer(r'\{ "([^"]+)", (\d+), (TLD_TYPE_\w+) \}', text)]
        for k, m in enumerate(rows):
            if k % 53: continue
            add(m.start(2), m.end(2), str(int(m.group(2)) + 1), "table-length+1")
            add(m.start(2), m.end(2), str(int(m.group(2)) - 1), "table-length-1")
            add(m.start(3), m.end(3), "TLD_TYPE_GENERIC" if m.group(3) != "TLD_TYPE_GENERIC" else "TLD_TYPE_COUNTRY_CODE", "table-type")
            d = m.group(1); add(m.start(1), m.end(1), d[:-1] + ("a" if d[-1] != "a" else "b"), "table-name")
        if rows: add(rows[len(rows) // 2].start(), rows[len(rows) // 2].end() + 1, "", "table-row-deleted")
        return out
    for m in re.finditer(r"<=|>=|==|!=|&&|\|\||<<|>>|->|<|>", text):
        a, b = m.span(); t = m.group(0)
        if not ok(a, b): continue
        rep = {"<=": ["<", "=="], ">=": [">", "=="], "==": ["!="], "!=": ["=="], "&&": ["||"], "||": ["&&"], "<": ["<=", "!="], ">": [">=", "!="]}.get(t)
        if not rep: continue
        for r in rep: add(a, b, r, "rel/logic")
    for m in re.finditer(r"(?<![\w.])(0[xX][0-9a-fA-F]+|\d+)(?![\w.])", text):
        a, b = m.span()
        if not ok(a, b): continue
        t = m.group(1)
        # array sizes / bit-field like contexts are left alone
        if text[max(0, a - 1)] == "[" and text[b:b + 1] == "]": continue
        v = int(t, 16) if t.lower().startswith("0x") else int(t, 10) if not (len(t) > 1 and t[0] == "0") else int(t, 8)
        fmt = (lambda x: hex(x)) if t.lower().startswith("0x") else (lambda x: str(x))
        add(a, b, fmt(v + 1), "const+1")
        if v > 0: add(a, b, fmt(v - 1), "const-1")
    for m in re.finditer(r"\b(YES|NO|true|false)\b", text):
        a, b = m.span()
        if not ok(a, b): continue
        add(a, b, {"YES": "NO", "NO": "YES", "true": "false", "false": "true"}[m.group(1)], "bool-swap")
    for m in re.finditer(r"\bif \(!", text):
        a, b = m.span()
        if ok(a, b): add(b - 1, b, "", "not-removed")
    pos = 0
    for ln in text.split("\n"):
        a, b = pos, pos + len(ln); pos = b + 1
        s = ln.strip(); cont = ""
        if s.endswith("\\"): cont = " \\"; s = s[:-1].rstrip()
        if not s.endswith(";") or not ok(a + (len(ln) - len(ln.lstrip())), a + len(ln.rstrip())): continue
        if DECL.match(ln) or s.startswith(("case ", "default", "}", "{", "for", "while", "if", "else", "do", "goto", "return")): continue
        if s.count("(") != s.count(")"): continue
        add(a, b, ln[:len(ln) - len(ln.lstrip())] + ";" + cont, "stmt-deleted")
    # de-duplicate
    seen = set(); uniq = []
    for m in out:
        k = (m["pos"], m["end"], m["new"])
        if k in seen or m["new"] == m["old"]: continue
        seen.add(k); uniq.append(m)
    return uniq


def all_mutants(files):
    ms = []
    for f in files:
        p = os.path.join(REPO, f)
        if not os.path.exists(p): continue
        for m in mutants_of(f, open(p, errors="surrogateescape").read()): ms.append(m)
    for m in ms:
        m["id"] = hashlib.sha1(("%s:%d:%d:%s" % (m["file"], m["pos"], m["end"], m["new"])).encode()).hexdigest()[:10]
    return ms


def sh(cmd, cwd=None, timeout=None, env=None):
    try:
        p = subprocess.run(cmd, cwd=cwd, stdout=subprocess.PIPE, stderr=subprocess.STDOUT, text=True, errors="replace", timeout=timeout, env=env)
        return p.returncode, p.stdout
    except subprocess.TimeoutExpired as e:
        return 124, (e.stdout or b"").decode("utf-8", "replace") if isinstance(e.stdout, bytes) else (e.stdout or "")


def make_copy(m, d):
    sh(["rsync", "-a", "--delete", "--exclude=.git", "--exclude=*.o", "--exclude=*.a", "--exclude=*.so", "--exclude=*.bin", "--exclude=/bin/eav", REPO + "/", d + "/"])
    p = os.path.join(d, m["file"]); t = open(p, errors="surrogateescape").read()
    assert t[m["pos"]:m["end"]] == m["old"], "mutant does not fit the tree"
    open(p, "w", errors="surrogateescape").write(t[:m["pos"]] + m["new"] + t[m["end"]:])


BASE_PASS = [None]   # number of ": PASS" lines of the suite on the unchanged tree
def baseline_pass():
    d = tempfile.mkdtemp(prefix="mutA.", dir="/tmp")
    try:
        sh(["rsync", "-a", "--exclude=.git", "--exclude=*.o", "--exclude=*.a", "--exclude=*.so", "--exclude=*.bin", "--exclude=/bin/eav", REPO + "/", d + "/"])
        rc, out = sh(["make", "-s"], cwd=d, timeout=300); rc2, out2 = sh(["make", "-s", "check"], cwd=d, timeout=300)
        if rc or rc2: raise SystemExit("the unchanged tree does not pass its suite")
        return out2.count(": PASS")
    finally:
        shutil.rmtree(d, ignore_errors=True)


def phase_a(m):
    d = tempfile.mkdtemp(prefix="mutA.", dir="/tmp")
    try:
        make_copy(m, d)
        rc, out = sh(["make", "-s"], cwd=d, timeout=300)
        if rc != 0: return dict(id=m["id"], a="build-failed")
        if re.search(r"\bwarning:", out): warn = True
        else: warn = False
        rc, out = sh(["make", "-s", "check"], cwd=d, timeout=300)
        if rc != 0 or out.count(": PASS") != BASE_PASS[0]: return dict(id=m["id"], a="suite-killed" if rc != 124 else "suite-timeout", warn=warn)
        return dict(id=m["id"], a="suite-survived", warn=warn)
    finally:
        shutil.rmtree(d, ignore_errors=True)


def anchors():
    """file -> properties anchored in it, the most specific (fewest anchor files) first"""
    mp = {}; nfiles = {}
    for l in open(os.path.join(VERIF, "properties.jsonl")):
        p = json.loads(l); nfiles[p["id"]] = len(p["anchors"]["files"])
        for f in p["anchors"]["files"]: mp.setdefault(f, []).append(p["id"])
    for f in mp: mp[f].sort(key=lambda i: (i in ("C06", "C14", "C17", "C18"), nfiles[i], i))
    return mp


def phase_b(m, amap, max_checks, skip=(), force=None):
    order = list(force) if force else list(amap.get(m["file"], []))
    if m["file"].startswith("bin/"): order = ["C20"]
    for b in BROAD:
        if b not in order and not m["file"].startswith("bin/"): order.append(b)
    order = list(force) if force else [p for p in order if p not in skip][:max_checks]
    d = tempfile.mkdtemp(prefix="mutB.", dir="/tmp"); res = dict(id=m["id"], tried=[], killed_by=None, infra=[])
    try:
        make_copy(m, d)
        for pid in order:
            t0 = time.time()
            rc, out = sh(["python3", os.path.join(VERIF, "tools", "check.py"), pid, "--tier", "quick", "--no-evidence"], env=dict(os.environ, VERIF_REPO_DIR=d, VERIF_SEED="1"), timeout=3000)
            viol = [l for l in out.split("\n") if l.startswith("VIOLATION")]
            for v in viol:
                f = v.split("replay=")[-1].strip()
                if os.path.exists(f) and "/regress/" not in f: os.unlink(f)
            res["tried"].append(dict(check=pid, rc=rc, s=round(time.time() - t0, 1)))
            if rc == 1 and viol:
                ce = [l for l in out.split("\n") if l.startswith("counterexample:")]
                res["killed_by"] = pid; res["counterexample"] = (ce[0][:300] if ce else None); break
            if rc not in (0, 1): res["infra"].append(dict(check=pid, rc=rc, tail=out[-400:]))
    finally:
        shutil.rmtree(d, ignore_errors=True)
    return res


def main():
    ap = argparse.ArgumentParser()
    ap.add_argument("cmd", choices=["gen", "run", "retry", "report"])
    ap.add_argument("--files", nargs="*"); ap.add_argument("--out", default=os.path.join(VERIF, "mutation"))
    ap.add_argument("--jobs", type=int, default=8); ap.add_argument("--limit", type=int, default=0); ap.add_argument("--sample", type=int, default=0)
    ap.add_argument("--max-checks", type=int, default=4); ap.add_argument("--checks", help="retry: run exactly these checks (comma separated) instead of the anchored order")
    a = ap.parse_args()
    files = a.files or DEFAULT_FILES
    if a.cmd == "gen":
        for m in all_mutants(files): print(json.dumps(m))
        return 0
    os.makedirs(a.out, exist_ok=True)
    fa, fb = os.path.join(a.out, "phaseA.jsonl"), os.path.join(a.out, "phaseB.jsonl")
    if a.cmd == "run":
        ms = all_mutants(files)
        if a.sample: ms = [m for m in ms if int(m["id"], 16) % a.sample == 0]
        if a.limit: ms = ms[:a.limit]
        json.dump(ms, open(os.path.join(a.out, "mutants.json"), "w"))
        doneA = {json.loads(l)["id"]: json.loads(l) for l in open(fa)} if os.path.exists(fa) else {}
        todo = [m for m in ms if m["id"] not in doneA]
        BASE_PASS[0] = baseline_pass()
        print("mutants: %d (phase A to do: %d); suite baseline: %d PASS lines" % (len(ms), len(todo), BASE_PASS[0]), flush=True)
        with cf.ThreadPoolExecutor(max_workers=a.jobs) as ex, open(fa, "a") as f:
            for k, r in enumerate(ex.map(phase_a, todo)):
                doneA[r["id"]] = r; f.write(json.dumps(r) + "\n"); f.flush()
                if k % 50 == 0: print("phase A %d/%d" % (k, len(todo)), flush=True)
        surv = [m for m in ms if doneA.get(m["id"], {}).get("a") == "suite-survived"]
        doneB = {json.loads(l)["id"] for l in open(fb)} if os.path.exists(fb) else set()
        amap = anchors()
        print("suite survivors: %d (phase B to do: %d)" % (len(surv), len([m for m in surv if m["id"] not in doneB])), flush=True)
        with open(fb, "a") as f:
            for k, m in enumerate(surv):
                if m["id"] in doneB: continue
                r = phase_b(m, amap, a.max_checks); f.write(json.dumps(r) + "\n"); f.flush()
                print("phase B %d/%d %s %s:%d %r -> %r : %s" % (k, len(surv), m["id"], m["file"], m["line"], m["old"][:30], m["new"][:30], r["killed_by"] or "SURVIVED"), flush=True)
    if a.cmd == "retry":     # survivors of the first pass against the checks that pass did not get to
        ms = {m["id"]: m for m in json.load(open(os.path.join(a.out, "mutants.json")))}
        B = {}
        for l in open(fb):
            r = json.loads(l)
            if r["id"] in B: r["tried"] = B[r["id"]]["tried"] + r["tried"]
            B[r["id"]] = r
        amap = anchors(); todo = [r for r in B.values() if not r["killed_by"] and r["id"] in ms and (not a.files or ms[r["id"]]["file"] in a.files)]
        with open(fb, "a") as f:
            for k, r0 in enumerate(todo):
                m = ms[r0["id"]]; r = phase_b(m, amap, a.max_checks, skip=[t["check"] for t in r0["tried"]], force=a.checks.split(",") if a.checks else None)
                if not r["tried"]: continue
                f.write(json.dumps(r) + "\n"); f.flush()
                print("retry %d/%d %s %s:%d %r -> %r : %s" % (k, len(todo), m["id"], m["file"], m["line"], m["old"][:30], m["new"][:30], r["killed_by"] or "SURVIVED"), flush=True)
    # report
    ms = {m["id"]: m for m in json.load(open(os.path.join(a.out, "mutants.json")))}
    A = {json.loads(l)["id"]: json.loads(l) for l in open(fa)} if os.path.exists(fa) else {}
    B = {}
    for l in (open(fb) if os.path.exists(fb) else []):
        r = json.loads(l)
        if r["id"] in B: r["tried"] = B[r["id"]]["tried"] + r["tried"]; r["infra"] = B[r["id"]].get("infra", []) + r.get("infra", [])
        B[r["id"]] = r
    cnt = {}
    for i, m in ms.items():
        st = A.get(i, {}).get("a", "not-run")
        if st == "suite-survived": st = ("killed-by-checks" if B[i]["killed_by"] else "survived-all") if i in B else "suite-survived(phase B not run)"
        cnt[st] = cnt.get(st, 0) + 1
    print(json.dumps(cnt, indent=1))
    byfile = {}
    for i, b in B.items():
        m = ms.get(i);
        if not m: continue
        e = byfile.setdefault(m["file"], [0, 0]); e[0] += 1; e[1] += 1 if b["killed_by"] else 0
    for f in sorted(byfile): print("%-34s suite-survivors %3d  killed by checks %3d" % (f, byfile[f][0], byfile[f][1]))
    print("survivors of suite and checks:")
    for i, b in B.items():
        if b["killed_by"] or i not in ms: continue
        m = ms[i]; print("  %s %s:%d [%s] %r -> %r   tried %s" % (i, m["file"], m["line"], m["op"], m["old"][:40], m["new"][:40], [t["check"] for t in b["tried"]]))
    return 0


if __name__ == "__main__":
    sys.exit(main())
