#!/usr/bin/env python3
"""appendix_g.py — regenerate the table of DESIGN.md Appendix G from tools/registry.py."""
import os, sys
sys.path.insert(0, os.path.dirname(os.path.abspath(__file__)))
import registry
VERIF = os.path.dirname(os.path.dirname(os.path.abspath(__file__)))
KIND = dict(rc="rapidcheck", fuzz="libFuzzer")
rows = ["| id | variants linked | stage (kind): quick / thorough budget |", "|---|---|---|"]
for pid in sorted(registry.PROPS):
    P = registry.PROPS[pid]
    var = sorted({v for b in P["binaries"].values() for v in b.get("variants", [])})
    st = []
    for s in P["stages"]:
        t = s["name"]
        if s.get("only"): t += " (%s only)" % s["only"]
        k = s["kind"]
        if k in KIND: t += " (%s): %s / %s" % (KIND[k], s["quick"], s["thorough"])
        elif k != "enum": t += " (%s%s)" % (k, ": %s / %s" % (s["quick"], s["thorough"]) if (s["quick"], s["thorough"]) != (1, 1) else "")
        elif (s["quick"], s["thorough"]) != (1, 1): t += ": %s / %s" % (s["quick"], s["thorough"])
        st.append(t)
    rows.append("| %s | %s | %s |" % (pid, ", ".join(var), "; ".join(st)))
p = os.path.join(VERIF, "DESIGN.md"); s = open(p).read()
i = s.index("| id | variants linked | stage (kind)"); j = s.index("\n\n", i)
open(p, "w").write(s[:i] + "\n".join(rows) + s[j:])
print("\n".join(rows))
