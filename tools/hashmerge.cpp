// hashmerge — counts distinct 64-bit hashes across worker files (exact merge of
// the per-worker "distinct non-trivial" sets).
#include <cstdio>
#include <cstdint>
#include <vector>
#include <algorithm>
int main(int argc, char **argv) {
    std::vector<uint64_t> v;
    for (int i = 1; i < argc; i++) {
        FILE *f = fopen(argv[i], "rb"); if (!f) continue;
        fseek(f, 0, SEEK_END); long n = ftell(f) / 8; fseek(f, 0, SEEK_SET);
        size_t o = v.size(); v.resize(o + n);
        if (n && fread(v.data() + o, 8, n, f) != (size_t) n) { perror("fread"); return 2; }
        fclose(f);
    }
    std::sort(v.begin(), v.end());
    printf("%zu\n", (size_t) (std::unique(v.begin(), v.end()) - v.begin()));
    return 0;
}
