#!/usr/bin/env python3
"""refcheck.py NAME DIFF [--all] [--checks C01,C05] — false-alarm test of the machinery (not a registered check).
Applies a behaviour-preserving rewrite of libeav (a refactoring written by an independent sub-agent, see DESIGN.md
section 10) to a scratch copy of /repo, confirms that the maintainers' suite stays green, and runs the quick checks
of every property anchored in the touched files plus the broad ones (or all 20 with --all) against the copy.
Every check is expected to exit 0; a VIOLATION is either a real behaviour difference of the rewrite (triage: the
counterexample is run against the unchanged tree by hand) or a false alarm of the check.  Result is stored in
refactors/NAME/{patch.diff,meta.json}."""
import os, re, sys, json, shutil, tempfile, subprocess, argparse
VERIF = os.path.dirname(os.path.dirname(os.path.abspath(__file__)))
sys.path.insert(0, os.path.join(VERIF, "tools"))
import mutate
BROAD = ["C01", "C06", "C12", "C13", "C15", "C16"]


def sh(cmd, **kw):
    p = subprocess.run(cmd, stdout=subprocess.PIPE, stderr=subprocess.STDOUT, text=True, errors="replace", **kw); return p.returncode, p.stdout


def main():
    ap = argparse.ArgumentParser(); ap.add_argument("name"); ap.add_argument("diff"); ap.add_argument("--all", action="store_true"); ap.add_argument("--checks")
    a = ap.parse_args()
    files = [m.group(1) for m in re.finditer(r"^diff --git a/(\S+) b/", open(a.diff).read(), re.M)]
    amap = mutate.anchors()
    if a.checks: checks = a.checks.split(",")
    elif a.all: checks = ["C%02d" % i for i in range(1, 21)]
    else:
        checks = []
        for f in files:
            for p in (["C20"] if f.startswith("bin/") else amap.get(f, [])):
                if p not in checks: checks.append(p)
        if not all(f.startswith("bin/") for f in files):
            for p in BROAD:
                if p not in checks: checks.append(p)
    out = os.path.join(VERIF, "refactors", a.name); os.makedirs(out, exist_ok=True)
    shutil.copy(a.diff, os.path.join(out, "patch.diff"))
    mp = os.path.join(out, "meta.json")
    meta = json.load(open(mp)) if os.path.exists(mp) else dict(name=a.name, files=files, checks={})
    meta["files"] = files
    d = tempfile.mkdtemp(prefix="refchk.", dir="/tmp")
    try:
        sh(["rsync", "-a", "--exclude=.git", "--exclude=*.o", "--exclude=*.a", "--exclude=*.so", "--exclude=*.bin", "--exclude=/bin/eav", "/repo/", d + "/"])
        rc, o = sh(["patch", "-p1", "--no-backup-if-mismatch", "-i", os.path.abspath(a.diff)], cwd=d)
        if rc: print("PATCH DOES NOT APPLY\n" + o[-500:]); return 2
        c = tempfile.mkdtemp(prefix="refchk.", dir="/tmp")
        try:
            sh(["rsync", "-a", d + "/", c + "/"])
            r1, o1 = sh(["make", "-s"], cwd=c); r2, o2 = sh(["make", "-s", "check"], cwd=c)
            meta["suite"] = dict(green=(r1 == 0 and r2 == 0 and o2.count(": PASS") == 54), pass_lines=o2.count(": PASS"), warnings=len(re.findall(r"\bwarning:", o1)))
            print("suite with the rewrite: %s" % meta["suite"], flush=True)
        finally:
            shutil.rmtree(c, ignore_errors=True)
        for pid in checks:
            rc, o = sh(["python3", os.path.join(VERIF, "tools", "check.py"), pid, "--tier", "quick", "--no-evidence"], env=dict(os.environ, VERIF_REPO_DIR=d, VERIF_SEED=os.environ.get("VERIF_SEED", "1")))
            viol = [l for l in o.split("\n") if l.startswith("VIOLATION")]
            for v in viol:
                f = v.split("replay=")[-1].strip()
                if os.path.exists(f) and "/regress/" not in f: os.unlink(f)
            ce = [l for l in o.split("\n") if l.startswith("counterexample:")]
            meta["checks"][pid] = dict(exit=rc, counterexample=(ce[0][:600] if ce else None), tail=None if rc == 0 else o[-500:])
            print("  %s: exit %d %s" % (pid, rc, (ce[0][:300] if ce else "")), flush=True)
            json.dump(meta, open(mp, "w"), indent=1, ensure_ascii=False)
    finally:
        shutil.rmtree(d, ignore_errors=True)
    json.dump(meta, open(mp, "w"), indent=1, ensure_ascii=False)
    return 0


if __name__ == "__main__":
    sys.exit(main())
