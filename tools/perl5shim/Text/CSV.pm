package Text::CSV;
# Minimal stand-in for Text::CSV (not installed in this sandbox): just what
# util/gentld.pl and util/gen_utf8_pass_test.pl use — new(), getline(), error_diag().
# RFC 4180 reader: quoted fields, doubled quotes, embedded commas and newlines.
use strict;
use warnings;

sub new { my ($class, $opts) = @_; return bless { %{ $opts || {} } }, $class; }
sub error_diag { return ""; }

sub getline {
    my ($self, $io) = @_;
    my $line = <$io>;
    return undef unless defined $line;
    my @fields; my $cur = ""; my $inq = 0; my $i = 0;
    while (1) {
        my $n = length $line;
        while ($i < $n) {
            my $c = substr($line, $i, 1);
            if ($inq) {
                if ($c eq '"') {
                    if ($i + 1 < $n && substr($line, $i + 1, 1) eq '"') { $cur .= '"'; $i++; }
                    else { $inq = 0; }
                } else { $cur .= $c; }
            }
            elsif ($c eq '"') { $inq = 1; }
            elsif ($c eq ',') { push @fields, $cur; $cur = ""; }
            elsif ($c eq "\r" || $c eq "\n") { }
            else { $cur .= $c; }
            $i++;
        }
        last unless $inq;            # record continues on the next physical line
        my $more = <$io>;
        last unless defined $more;
        $line = $more; $i = 0;
        # the newline that was inside the quotes belongs to the field
        $cur .= "\n" unless $cur =~ /\n\z/;
    }
    push @fields, $cur;
    return \@fields;
}

1;
