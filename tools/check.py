#!/usr/bin/env python3
"""check.py — driver of every registered check.

  tools/check.py <ID> [--tier quick|thorough] [--seed N]     run a property
  tools/check.py <ID> --replay <file>                        re-execute a replay file
  tools/check.py --setup                                     compile all harness objects

Exit codes: 0 held on everything explored; 1 violation (a line
`VIOLATION property=<ID> replay=<path>` is printed); 2 infrastructure / health
problem (never a verdict).  Budgets are case counts, never time limits.
"""
import os, sys, json, time, glob, shutil, hashlib, subprocess, argparse, struct
import concurrent.futures as cf

HERE = os.path.dirname(os.path.abspath(__file__))
VERIF = os.path.dirname(HERE)
sys.path.insert(0, HERE)
import build as B
from registry import PROPS, stages_for

BUILD = os.path.join(VERIF, "build")
NCPU = int(os.environ.get("VERIF_JOBS", "16"))
CXX = ["clang++", "-std=gnu++17", "-O1", "-g", "-fno-omit-frame-pointer", "-I" + VERIF]
SANMAP = {"asan": B.SAN.split()[3:], "tsan": ["-fsanitize=thread"], "plain": ["-gdwarf-4"],
          "fuzz": ["-fsanitize=fuzzer,address,undefined", "-fno-sanitize-recover=undefined"]}


def log(*a):
    print(*a, file=sys.stderr, flush=True)


def newer(target, deps):
    if not os.path.exists(target):
        return True
    t = os.path.getmtime(target)
    return any(os.path.getmtime(d) > t for d in deps if os.path.exists(d))


def harness_deps():
    return (glob.glob(os.path.join(VERIF, "harness", "*.hpp")) + glob.glob(os.path.join(VERIF, "oracle", "*.hpp")) +
            glob.glob(os.path.join(VERIF, "shim", "*.h")))


def compile_obj(src, san, defs=()):
    os.makedirs(BUILD, exist_ok=True)
    tag = san + ("-" + hashlib.sha256(" ".join(defs).encode()).hexdigest()[:6] if defs else "")
    obj = os.path.join(BUILD, os.path.basename(src).rsplit(".", 1)[0] + "." + tag + ".o")
    srcp = os.path.join(VERIF, src)
    if newer(obj, [srcp] + harness_deps()):
        comp = CXX if src.endswith(".cpp") else ["clang", "-O1", "-g", "-fno-omit-frame-pointer", "-I" + VERIF, "-I" + os.path.join(VERIF, "adapters")]
        tmp = obj + ".%d.tmp" % os.getpid()
        B.run(comp + SANMAP[san] + list(defs) + ["-c", srcp, "-o", tmp])
        os.replace(tmp, obj)
    return obj


def all_objects():
    out = []
    for pid, p in PROPS.items():
        for b in p["binaries"].values():
            for src in b.get("src", []):
                out.append((src, b.get("san", "asan"), tuple(b.get("defs", ()))))
    out.append(("tools/hashmerge.cpp", "plain", ()))
    return sorted(set(out))


def setup():
    t0 = time.time()
    with cf.ThreadPoolExecutor(max_workers=NCPU) as ex:
        list(ex.map(lambda x: compile_obj(*x), all_objects()))
    hashmerge_exe()
    log("setup done in %.1fs" % (time.time() - t0))


def hashmerge_exe():
    exe = os.path.join(BUILD, "hashmerge")
    obj = compile_obj("tools/hashmerge.cpp", "plain")
    if newer(exe, [obj]):
        B.run(["clang++", "-O2", "-o", exe + ".tmp%d" % os.getpid(), obj])
        os.replace(exe + ".tmp%d" % os.getpid(), exe)
    return exe


def link(scr, name, b):
    if "script" in b:   # program-level stages written in Python (run by the tooling interpreter)
        interp = shutil.which(b.get("interp", "python3")) or "/opt/veriftools/pyvenv/bin/python3"
        return [interp, os.path.join(VERIF, b["script"])]
    san = b.get("san", "asan")
    with cf.ThreadPoolExecutor(max_workers=8) as ex:
        objs = list(ex.map(lambda s: compile_obj(s, san, tuple(b.get("defs", ()))), b["src"]))
    vobjs = [scr.objs[v] for v in b.get("variants", [])]
    exe = os.path.join(scr.dir, name)
    B.run(["clang++"] + SANMAP[san] + ["-o", exe] + objs + vobjs + b.get("libs", ["-lrapidcheck", "-lidn2"]) + ["-lpthread"])
    return exe


# --------------------------------------------------------------------------- known findings
def load_known(pid):
    """open: lines -> {class: text}; fixed: lines -> list"""
    opens, fixed = {}, []
    path = os.path.join(VERIF, "known_findings.txt")
    if os.path.exists(path):
        for line in open(path, encoding="utf-8"):
            line = line.strip()
            if not line or line.startswith("#"):
                continue
            if line.startswith("open:") and ("property=%s " % pid) in line + " ":
                cls = None
                for tok in line.split():
                    if tok.startswith("class="):
                        cls = tok[6:]
                if cls:
                    opens[cls] = line[5:].strip()
            elif line.startswith("fixed:") and ("property=%s " % pid) in line + " ":
                fixed.append(line[6:].strip())
    return opens, fixed


# --------------------------------------------------------------------------- running stages
def worker_cmd(exe, st, i, n, seed, budget, out, tier, datadir, known, extra=None):
    cmd = (exe if isinstance(exe, list) else [exe]) + ["--stage", st["name"], "--worker", "%d/%d" % (i, n), "--seed", str(seed), "--budget", str(budget),
           "--out", out, "--data", datadir, "--repo", os.path.dirname(datadir.rstrip("/"))]
    if tier == "thorough":
        cmd.append("--thorough")
    if known:
        cmd += ["--known", ",".join(sorted(known))]
    cmd += st.get("args", [])
    cmd += extra or []
    return cmd


def derive_seed(seed, pid, stage, worker):
    h = hashlib.sha256(("%d/%s/%s/%d" % (seed, pid, stage, worker)).encode()).digest()
    return struct.unpack("<Q", h[:8])[0] % (2 ** 62) + 1


def san_env(extra=None):
    env = dict(os.environ)
    env["ASAN_OPTIONS"] = "detect_leaks=1:abort_on_error=0:exitcode=77:allocator_may_return_null=1:detect_stack_use_after_return=1:quarantine_size_mb=16:handle_abort=1"
    env["UBSAN_OPTIONS"] = "print_stacktrace=1:halt_on_error=1:exitcode=77"
    env["LSAN_OPTIONS"] = "exitcode=77"
    env["TSAN_OPTIONS"] = "halt_on_error=1:exitcode=77:second_deadlock_stack=1"
    env.pop("RC_PARAMS", None)
    if extra:
        env.update(extra)
    return env


def run_stage(pid, exe, st, tier, seed, outdir, datadir, known, extra=None, only_worker=None):
    kind = st.get("kind", "enum")
    n = st.get("workers", NCPU)
    budget = st["thorough"] if tier == "thorough" else st["quick"]
    procs = []
    for i in range(n):
        if only_worker is not None and i != only_worker:
            continue
        wseed = derive_seed(seed, pid, st["name"], i)
        env = san_env(st.get("env"))
        if kind == "rc":
            env["RC_PARAMS"] = "seed=%d max_success=%d max_size=%d noshrink=0 verbose_progress=0" % (wseed, budget, st.get("max_size", 100))
        cmd = worker_cmd(exe, st, i, n, wseed, budget, outdir, tier, datadir, known, extra)
        lf = open(os.path.join(outdir, "%s-%d.log" % (st["name"], i)), "wb")
        procs.append((i, subprocess.Popen(cmd, stdout=lf, stderr=subprocess.STDOUT, env=env, cwd=outdir), lf, cmd))
    results = []
    for i, p, lf, cmd in procs:
        rc = p.wait()
        lf.close()
        jpath = os.path.join(outdir, "%s-%d.json" % (st["name"], i))
        data = None
        if os.path.exists(jpath):
            try:
                data = json.load(open(jpath))
            except Exception as e:
                log("bad worker json", jpath, e)
        logtxt = open(os.path.join(outdir, "%s-%d.log" % (st["name"], i)), "rb").read().decode("utf-8", "replace")
        results.append(dict(worker=i, rc=rc, data=data, log=logtxt, cmd=cmd))
    return results


def merge_hashes(files):
    files = [f for f in files if os.path.exists(f) and os.path.getsize(f) > 0]
    if not files:
        return 0
    p = subprocess.run([hashmerge_exe()] + files, stdout=subprocess.PIPE, text=True)
    return int(p.stdout.strip() or 0)


def crash_digest(log):
    """the lines of a sanitizer report that say what happened and where in libeav"""
    keep = []
    for l in log.split("\n"):
        t = l.strip()
        if "ERROR: " in t or t.startswith("SUMMARY:") or "runtime error:" in t or "Assertion" in t or t.startswith("CYCLING-"):
            keep.append(t[:300])
        elif t.startswith("#") and ("/src/" in t or "/partial/" in t or "/bin/" in t or "/include/eav" in t) and len([k for k in keep if k.startswith("#")]) < 4:
            keep.append(t[:200])
    return " | ".join(keep[:8]) if keep else log[-700:]


def rerun_worker(pid, exe, st, tier, seed, outdir, datadir, known, extra, worker):
    """Re-execute one worker of a (deterministic) stage exactly as the stage ran it.  Used when a failure does not
    reproduce from its case alone: the code under test may keep state between validations, and then the reproducible
    unit is the worker's whole run.  Returns the list of failures it reported (crash = one pseudo failure)."""
    d = os.path.join(outdir, "rerun"); shutil.rmtree(d, ignore_errors=True); os.makedirs(d)
    res = run_stage(pid, exe, st, tier, seed, d, datadir, known, extra, only_worker=worker)
    out = []
    for r in res:
        if r["data"] is None:
            if r["rc"] not in (0, 2):
                out.append(dict(cls="crash", explain="worker died (exit %d): %s" % (r["rc"], r["log"][-500:])))
        else:
            out += r["data"]["failures"]
    return out


def write_replay(pid, stage, f, extra=None):
    os.makedirs(os.path.join(VERIF, "replays"), exist_ok=True)
    h = hashlib.sha256(f["case"].encode()).hexdigest()[:12]
    path = os.path.join(VERIF, "replays", "%s-%s.json" % (pid, h))
    d = dict(property=pid, stage=stage, binary=f.get("binary"), cls=f["cls"], case=f["case"], explain=f["explain"])
    if extra:
        d.update(extra)
    json.dump(d, open(path, "w"), indent=1)
    return path


CTX = {}


def replay_case(exe, case, datadir, extra_args=None):
    import runners
    if case.startswith("vg="):
        return runners.replay_valgrind(CTX, case)
    if case.startswith("cg="):
        return runners.replay_callgrind(CTX, case)
    if case.startswith("fuzz=x") or case.startswith("cli=x"):
        d = os.path.join(CTX["scr"].dir, "out")
        os.makedirs(d, exist_ok=True)
        fn = os.path.join(d, "replay-input.bin")
        open(fn, "wb").write(bytes.fromhex(case.split("=x", 1)[1].split()[0]))
        if case.startswith("cli=x"):
            return runners.replay_cli(CTX, fn)
        env = san_env(); env.update(VF_OUT=d, VF_STAGE="replay", VF_WORKER="0")
        p = subprocess.run([exe, fn], stdout=subprocess.PIPE, stderr=subprocess.STDOUT, env=env, text=True, errors="replace", cwd=d)
        return (3 if p.returncode != 0 else 0), p.stdout[-2500:]
    pre = exe if isinstance(exe, list) else [exe]
    outd = os.path.join(os.path.dirname(datadir.rstrip("/")), "..", "out")
    os.makedirs(outd, exist_ok=True)
    rarg = ["--replay", case]
    if len(case) > 100000:      # one argv string is limited to 128 KiB
        cf_ = os.path.join(outd, "replay-case-%d.txt" % os.getpid())
        open(cf_, "w").write(case)
        rarg = ["--replay-file", cf_]
    p = subprocess.run(pre + rarg + ["--data", datadir, "--out", outd] + (extra_args or []),
                       stdout=subprocess.PIPE, stderr=subprocess.STDOUT, env=san_env(), text=True, errors="replace")
    return p.returncode, p.stdout


# --------------------------------------------------------------------------- evidence
def validate_evidence(ev):
    schema_path = "/root/.vp/EVIDENCE.schema.json"
    try:
        import jsonschema
        jsonschema.validate(ev, json.load(open(schema_path)))
        return "jsonschema"
    except ImportError:
        pass
    code = ("import json,sys,jsonschema; jsonschema.validate(json.load(open(sys.argv[1])), json.load(open(sys.argv[2])))")
    tmp = os.path.join(VERIF, "evidence", ".tmp-validate-%d.json" % os.getpid())
    json.dump(ev, open(tmp, "w"))
    try:
        for py in ("python3-vt", "/opt/veriftools/pyvenv/bin/python3"):
            if shutil.which(py) or os.path.exists(py):
                r = subprocess.run([py, "-c", code, tmp, schema_path], stdout=subprocess.PIPE, stderr=subprocess.STDOUT, text=True)
                if r.returncode != 0:
                    log("EVIDENCE DOES NOT VALIDATE:\n" + r.stdout[-2000:])
                    raise SystemExit(2)
                return py
    finally:
        os.unlink(tmp)
    # minimal built-in fallback
    cov = ev["coverage"]
    assert cov["evaluations"] >= 1 and cov["distinct_nontrivial"] >= 2 and cov["samples"]
    return "builtin"


def main():
    ap = argparse.ArgumentParser()
    ap.add_argument("pid", nargs="?")
    ap.add_argument("--tier", default=os.environ.get("VERIF_TIER", "quick"))
    ap.add_argument("--seed", type=int, default=int(os.environ.get("VERIF_SEED", "1") or 1))
    ap.add_argument("--replay")
    ap.add_argument("--setup", action="store_true")
    ap.add_argument("--stages", help="comma list: run only these stages (debugging; evidence marked partial)")
    ap.add_argument("--no-evidence", action="store_true")
    a = ap.parse_args()
    if a.setup:
        setup()
        return 0
    pid = a.pid
    if pid not in PROPS:
        log("unknown property", pid)
        return 2
    if a.tier not in ("quick", "thorough"):
        a.tier = "quick"
    P = PROPS[pid]
    t0 = time.time()
    opens, fixed = load_known(pid)
    with B.Scratch() as scr:
        variants = sorted({v for b in P["binaries"].values() for v in b.get("variants", [])})
        scr.build_variants(variants)
        ctx = dict(scr=scr, datadir=os.path.join(scr.src, "data"), tier=a.tier, seed=a.seed)
        CTX.update(ctx)
        if P.get("prepare"):
            P["prepare"](ctx)
        exes = {}
        with cf.ThreadPoolExecutor(max_workers=4) as ex:
            futs = {name: ex.submit(link, scr, name, b) for name, b in P["binaries"].items()}
            for name, f in futs.items():
                exes[name] = f.result()
        ctx["exes"] = exes
        CTX.update(ctx)
        datadir = ctx["datadir"]
        outdir = os.path.join(scr.dir, "out")
        os.makedirs(outdir, exist_ok=True)

        # ---- replay mode
        if a.replay:
            rp = json.load(open(a.replay))
            exe = exes[rp.get("binary") or P["default_binary"]]
            if rp["case"].startswith("rerun="):
                sname, w = rp["case"][6:].split(":")
                st = next(s for s in PROPS[pid]["stages"] if s["name"] == sname)
                fl = rerun_worker(pid, exe, st, rp.get("tier", a.tier), int(rp.get("seed", a.seed)), outdir, datadir, set(opens), ctx.get("replay_args"), int(w))
                for g in fl[:3]:
                    print("REPLAY-FAIL %s: %s" % (g["cls"], g["explain"][:1500]))
                if fl:
                    print("VIOLATION property=%s replay=%s" % (pid, os.path.abspath(a.replay)))
                    return 1
                print("REPLAY-PASS")
                return 0
            rc, out = replay_case(exe, rp["case"], datadir, ctx.get("replay_args"))
            print(out.strip()[-3000:])
            if rc != 0:
                print("VIOLATION property=%s replay=%s" % (pid, os.path.abspath(a.replay)))
                return 1
            return 0

        stages = stages_for(pid, a.tier)
        if a.stages:
            want = set(a.stages.split(","))
            stages = [s for s in stages if s["name"] in want]
        violations, infra = [], []
        # ---- 1. committed regression replays (fixed findings and earlier counterexamples)
        nreg = 0
        for rf in sorted(glob.glob(os.path.join(VERIF, "replays", "regress", pid + "-*.json"))):
            rp = json.load(open(rf))
            if rp.get("only_tier") and rp["only_tier"] != a.tier:
                continue   # e.g. replays that allocate 2 GiB run in the thorough tier only
            exe = exes[rp.get("binary") or P["default_binary"]]
            rc, out = replay_case(exe, rp["case"], datadir, ctx.get("replay_args"))
            nreg += 1
            if rc == 3 or rc == 77:
                if rp.get("cls") in opens:
                    continue
                violations.append(dict(cls=rp.get("cls", "regression"), case=rp["case"], explain="regression replay fails again: " + out.strip()[-400:],
                                       binary=rp.get("binary"), stage="regress", replay_file=rf))
            elif rc != 0:
                infra.append("regression replay %s exit %d: %s" % (rf, rc, out[-300:]))
        # ---- 2. stages
        merged = dict(evaluations=0, classes={}, samples={}, known_hits={}, exhaustive=[], notes=[], stages={})
        hashfiles = []
        capped = False
        for st in stages:
            if violations and not os.environ.get("VERIF_CONTINUE"):
                break
            ts = time.time()
            exe = exes[st.get("binary") or P["default_binary"]]
            if st.get("runner"):
                res = st["runner"](ctx, exe, st, a.tier, a.seed, outdir, datadir, set(opens), pid)
            else:
                res = run_stage(pid, exe, st, a.tier, a.seed, outdir, datadir, set(opens), ctx.get("replay_args"))
            sev = 0
            for r in res:
                d = r["data"]
                if d is None:
                    # process died without a report: sanitizer abort, signal, crash of the code under test
                    tail = r["log"][-1500:]
                    dump = os.path.join(outdir, "%s-%d.inflight" % (st["name"], r["worker"]))
                    case = open(dump).read().strip() if os.path.exists(dump) else ""
                    if r["rc"] == 78 and case:
                        violations.append(dict(cls="hang", case=case, explain="a validation did not return: no evaluation finished within three CPU-time ticks of the watchdog (>= 30 s of CPU time inside one call; inputs are <= 64 KiB outside the huge stages)",
                                               binary=st.get("binary"), stage=st["name"]))
                    elif r["rc"] in (77, -6, -11, -4, -7, -8, -5, 134, 139) and case:
                        violations.append(dict(cls="crash", case=case, explain="harness process died (exit %d): %s" % (r["rc"], crash_digest(r["log"])),
                                               binary=st.get("binary"), stage=st["name"]))
                    else:
                        infra.append("stage %s worker %d exit %d without report: %s" % (st["name"], r["worker"], r["rc"], tail[-600:]))
                    continue
                sev += d["evaluations"]
                merged["evaluations"] += d["evaluations"]
                for k, v in d["classes"].items():
                    merged["classes"][k] = merged["classes"].get(k, 0) + v
                for k, v in d["samples"].items():
                    lst = merged["samples"].setdefault(k, [])
                    for x in v:
                        if len(lst) < 4 and x not in lst:
                            lst.append(x)
                for k, v in d["known_hits"].items():
                    kh = merged["known_hits"].setdefault(k, dict(count=0, example=v["example"]))
                    kh["count"] += v["count"]
                for e in d["exhaustive"]:
                    if e not in merged["exhaustive"]:
                        merged["exhaustive"].append(e)
                for nn in d["notes"]:
                    if nn not in merged["notes"]:
                        merged["notes"].append(nn)
                capped = capped or d["nt_capped"]
                if d.get("health_fail"):
                    infra.append("stage %s worker %d: generator health check failed: %s" % (st["name"], r["worker"], "; ".join(d["notes"])[-400:]))
                for f in d["failures"]:
                    f = dict(f)
                    # an oracle failure found by a fuzz stage carries the property's own case: replayed by the default binary
                    f["binary"] = None if (st.get("kind") == "fuzz" and not f["case"].startswith("fuzz=")) else st.get("binary")
                    f["stage"] = st["name"]
                    f["worker"] = r["worker"]
                    violations.append(f)
                if r["rc"] not in (0, 3) and not d["failures"]:
                    infra.append("stage %s worker %d exit %d: %s" % (st["name"], r["worker"], r["rc"], r["log"][-500:]))
                hashfiles.append(os.path.join(outdir, "%s-%d.hashes" % (st["name"], r["worker"])))
            merged["stages"][st["name"]] = dict(evaluations=sev, wall_s=round(time.time() - ts, 2), workers=len(res),
                                               budget=st["thorough"] if a.tier == "thorough" else st["quick"], kind=st.get("kind", "enum"))
            log("[%s] stage %-12s %10d evaluations  %.1fs" % (pid, st["name"], sev, time.time() - ts))
        distinct = merge_hashes(hashfiles)

        # ---- 3. confirm violations by replaying 3x
        confirmed = None
        if violations:
            violations.sort(key=lambda f: (len(f["case"]), f["case"]))
            for f in violations[:5]:
                exe = exes[f.get("binary") or P["default_binary"]]
                if not f["case"]:
                    continue
                rcs = [replay_case(exe, f["case"], datadir, ctx.get("replay_args"))[0] for _ in range(3)]
                if all(rc in (3, 77, 78) or rc < 0 or rc in (134, 139) for rc in rcs):
                    confirmed = f
                    break
                log("failure did not reproduce 3x (%s): %s" % (rcs, f["case"][:200]))
            if confirmed is None:
                # not reproducible from the case alone: is it reproducible as "this worker's whole run"?  (state that the
                # code under test keeps between validations makes a verdict depend on the worker's earlier inputs)
                for f in violations[:3]:
                    st = next((s for s in stages if s["name"] == f.get("stage")), None)
                    if st is None or st.get("runner") or st.get("kind", "enum") not in ("enum", "rc") or "worker" not in f:
                        continue
                    exe = exes[st.get("binary") or P["default_binary"]]
                    again = [rerun_worker(pid, exe, st, a.tier, a.seed, outdir, datadir, set(opens), ctx.get("replay_args"), f["worker"]) for _ in range(2)]
                    if all(again):
                        g = again[0][0]
                        confirmed = dict(cls=g["cls"], stage=f["stage"], binary=st.get("binary"),
                                         case="rerun=%s:%d" % (f["stage"], f["worker"]),
                                         explain="reproducible only as the whole run of worker %d of stage '%s' (tier %s, seed %d), not from the single case: the verdict depends on what the process validated earlier. %s"
                                                 % (f["worker"], f["stage"], a.tier, a.seed, g["explain"]))
                        break
                    log("failure did not reproduce by re-running worker %s of stage %s either" % (f.get("worker"), f.get("stage")))
            if confirmed is None:
                infra.append("oracle failures were reported but none reproduced from its replay case: " + json.dumps(violations[0])[:600])

        # ---- 4. evidence
        wall = time.time() - t0
        samples = []
        for k in sorted(merged["samples"]):
            for x in merged["samples"][k]:
                samples.append("%s | %s" % (k, x))
        partial = bool(a.stages)
        cov = dict(evaluations=merged["evaluations"], distinct_nontrivial=distinct, rule=P["rule"], samples=samples[:40] or ["(none)"],
                   classes=merged["classes"], stages=merged["stages"], regression_replays=nreg,
                   exhaustive=bool(P.get("finite_quantifier")) and bool(merged["exhaustive"]) and not violations and not partial, exhaustive_subspaces=merged["exhaustive"],
                   distinct_count_capped=capped, excluded_known=merged["known_hits"], notes=merged["notes"], partial_run=partial)
        if P.get("extra_cov"):
            cov.update(P["extra_cov"](merged))
        ev = dict(property_id=pid, tier=a.tier, seed=a.seed, level=P["level"], coverage=cov, assumptions=P["assumptions"],
                  wall_s=round(wall, 2), violations=1 if confirmed else 0)
        if infra:
            ev["coverage"]["infra_problems"] = infra[:10]
        if not a.no_evidence and not partial:
            os.makedirs(os.path.join(VERIF, "evidence"), exist_ok=True)
            if merged["evaluations"] >= 1 and distinct >= 2:
                validate_evidence(ev)
            json.dump(ev, open(os.path.join(VERIF, "evidence", pid + ".json"), "w"), indent=1, ensure_ascii=True)
        # ---- 5. verdict
        for cls, text in opens.items():
            hits = merged["known_hits"].get(cls, {}).get("count", 0)
            print("KNOWN-FINDING: property=%s %s (hits this run: %d)" % (pid, text, hits))
        if confirmed:
            path = write_replay(pid, confirmed["stage"], confirmed, dict(tier=a.tier, seed=a.seed))
            print("counterexample: %s" % confirmed["explain"][:1500])
            print("VIOLATION property=%s replay=%s" % (pid, path))
            return 1
        if infra:
            for i in infra[:10]:
                log("INFRA:", i)
            return 2
        floor = P.get("min_evaluations", {}).get(a.tier, 1)
        if merged["evaluations"] < floor and not partial:
            log("INFRA: only %d evaluations (< floor %d): a stage silently did too little" % (merged["evaluations"], floor))
            return 2
        print("OK property=%s tier=%s seed=%d evaluations=%d distinct_nontrivial=%d wall=%.1fs" %
              (pid, a.tier, a.seed, merged["evaluations"], distinct, wall))
        return 0


if __name__ == "__main__":
    sys.exit(main())
