#!/bin/sh
# baseline.sh [--all-options] — runs the repository's own suite (make && make check)
# with the verification guard OFF, in a scratch copy of /repo's working tree.
# Exit 0 iff make check passes (default build; with --all-options also in the 8
# combinations of the three make options, as misc/checkall.sh does for libidn2).
REPO="${VERIF_REPO_DIR:-/repo}"
T=$(mktemp -d "${TMPDIR:-/tmp}/verif-base.XXXXXX") || exit 2
trap 'rm -rf "$T"' EXIT INT TERM
rsync -a --exclude=.git --exclude='*.o' --exclude='*.a' --exclude='*.so' --exclude='*.bin' \
      --exclude=/bin/eav --exclude=/bin/eav.static "$REPO"/ "$T"/r/ || exit 2
cd "$T/r" || exit 2
unset CFLAGS CPPFLAGS LDFLAGS DEFS RFC6531_FOLLOW_RFC5322 RFC6531_FOLLOW_RFC20 LABELS_ALLOW_UNDERSCORE FORCE_IDN MAKEFLAGS
run() {
    make clean >/dev/null 2>&1
    if make "$@" >"$T/log" 2>&1 && make "$@" check >>"$T/log" 2>&1; then
        echo "PASS: make check $*  ($(grep -c ': PASS$' "$T/log") test programs passed)"
    else
        echo "FAIL: make check $*"; tail -40 "$T/log"; exit 1
    fi
}
run
if [ "$1" = "--all-options" ]; then
    for a in OFF ON; do for b in OFF ON; do for c in OFF ON; do
        run RFC6531_FOLLOW_RFC5322=$a RFC6531_FOLLOW_RFC20=$b LABELS_ALLOW_UNDERSCORE=$c
    done; done; done
fi
exit 0
