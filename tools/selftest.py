#!/usr/bin/env python3
"""selftest.py [IDs...] — sensitivity self-test of the machinery (not a registered check).
For every confirmed seeded change under seeded/ (or the given ones, e.g. C05-3): apply the patch to a scratch
copy of /repo and run the property's own check (the tier recorded in meta.json, quick by default) with
VERIF_REPO_DIR pointing at the copy; the check must exit 1 with a VIOLATION line.  Also runs every check
once on the unchanged tree when called with --clean.  Prints a table and exits non-zero on any miss."""
import os, sys, json, glob, subprocess, tempfile, shutil
VERIF = os.path.dirname(os.path.dirname(os.path.abspath(__file__)))
def sh(cmd, **kw):
    p = subprocess.run(cmd, stdout=subprocess.PIPE, stderr=subprocess.STDOUT, text=True, errors="replace", **kw); return p.returncode, p.stdout
def main():
    ids = [a for a in sys.argv[1:] if not a.startswith("--")]
    seed = os.environ.get("VERIF_SEED", "1")
    bad = 0
    if "--clean" in sys.argv or "--clean-only" in sys.argv:
        for l in open(os.path.join(VERIF, "properties.jsonl")):
            pid = json.loads(l)["id"]
            rc, out = sh(["python3", os.path.join(VERIF, "tools", "check.py"), pid, "--tier", "quick", "--no-evidence"], env=dict(os.environ, VERIF_SEED=seed))
            print("clean %s: exit %d" % (pid, rc), flush=True); bad += rc != 0
    if "--clean-only" in sys.argv:
        print("selftest: %d problem(s)" % bad); return 1 if bad else 0
    for mp in sorted(glob.glob(os.path.join(VERIF, "seeded", "*", "meta.json"))):
        k = os.path.basename(os.path.dirname(mp)); m = json.load(open(mp))
        if ids and k not in ids: continue
        if not m.get("confirmed") or m.get("out_of_scope"): continue
        tier = "thorough" if any(c.endswith("/thorough") and v["detected"] for c, v in m["checks"].items()) and not any(c.endswith("/quick") and v["detected"] for c, v in m["checks"].items()) else "quick"
        d = tempfile.mkdtemp(prefix="selftest.", dir="/tmp")
        try:
            sh(["rsync", "-a", "--exclude=.git", "--exclude=*.o", "--exclude=*.a", "--exclude=*.so", "--exclude=*.bin", "--exclude=/bin/eav", "/repo/", d + "/"])
            rc, out = sh(["patch", "-p1", "--no-backup-if-mismatch", "-i", os.path.join(os.path.dirname(mp), "patch.diff")], cwd=d)
            if rc != 0: print("%s: PATCH DOES NOT APPLY" % k, flush=True); bad += 1; continue
            rc, out = sh(["python3", os.path.join(VERIF, "tools", "check.py"), m["property"], "--tier", tier, "--no-evidence"], env=dict(os.environ, VERIF_REPO_DIR=d, VERIF_SEED=seed))
            viol = [l for l in out.split("\n") if l.startswith("VIOLATION")]
            for v in viol:
                f = v.split("replay=")[-1].strip()
                if os.path.exists(f) and "/regress/" not in f: os.unlink(f)
            ok = rc == 1 and bool(viol)
            print("%s (%s %s): %s" % (k, m["property"], tier, "detected" if ok else "MISSED (exit %d)" % rc), flush=True); bad += not ok
        finally:
            shutil.rmtree(d, ignore_errors=True)
    print("selftest: %d problem(s)" % bad); return 1 if bad else 0
if __name__ == "__main__":
    sys.exit(main())
