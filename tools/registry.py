"""registry.py — what each property's check consists of: binaries (harness sources
+ libeav variants), stages with case budgets per tier, evidence texts."""

import runners
RC = "-lrapidcheck"
IDN = "-lidn2"


def stage(name, kind="enum", quick=1, thorough=1, **kw):
    d = dict(name=name, kind=kind, quick=quick, thorough=thorough)
    d.update(kw)
    return d


PROPS = {}
NOT_APPLICABLE = {}

PROPS["C02"] = dict(
    level="exploration",
    default_binary="c02",
    binaries={"c02": dict(src=["props/c02.cpp"], variants=["dflt", "uchar"])},
    stages=[
        stage("corpus", workers=1),
        stage("automaton"),
        stage("long"),
        stage("folds"),
        stage("bounded"),
        stage("random", kind="rc", quick=6000, thorough=300000, max_size=100),
    ],
    rule="Local parts are (a) every string prefix+byte+suffix of the automaton-conformance suite, (b) every string of length <= 6 (quick) / <= 8 "
         "(thorough) over 13 class-representative bytes, (c) grammar-generated valid and mutated local parts up to 300 octets, (d) the repository's "
         "local-part corpus, (e) 29 shapes placing one structural event before / after / inside a run of 1-2100 (thorough 1-8300) octets, (f) all strings of length 7-8 (thorough 7-9) over the quoted-pair / folding symbols {\" \\ CR LF SP . a}; each judged in modes 822/5321/5322 against the reference recogniser, with '@' and with NUL after the local part. "
         "Non-trivial = accepted by the reference, or >= 2 bytes long with a first byte that does not reject at once (atom character or DQUOTE); "
         "distinct = by (mode, bytes) hash.",
    assumptions=["reference recogniser oracle/ref.hpp::local_ok is the specification (written from the statement and RFC 822/5321/5322 grammars)",
                 "validators are called with `end` on the terminating '@' or NUL, as every in-tree caller does"],
    min_evaluations=dict(quick=10_000_000, thorough=100_000_000),
    technique="differential against an independent reference recogniser: automaton-conformance suite + bounded-exhaustive enumeration + rapidcheck grammar-based generation with shrinking",
    level_text="Exploration by generated inputs against an explicit reference model. Two finite sub-spaces are enumerated completely (every byte in every "
               "reference-automaton state with distinguishing suffixes; all strings up to length 6/7 over 13 class representatives), which pins the "
               "per-state byte tables of all three scanners; long and structured inputs are sampled by grammar-based generation. Absence of "
               "violations outside those sets is not established.",
    level_note="Trusted: the reference recogniser (oracle/ref.hpp, ~60 lines, written from the statement); clang ASan/UBSan; the shim (public API only).",
)

PROPS["C03"] = dict(
    level="exploration",
    default_binary="c03",
    binaries={"c03": dict(src=["props/c03.cpp"], variants=["dflt"])},
    stages=[
        stage("corpus", workers=1),
        stage("family"),
        stage("long"),
        stage("huge", only="thorough", workers=6),
        stage("utf8"),
        stage("bounded"),
        stage("random", kind="rc", quick=6000, thorough=300000, max_size=100),
    ],
    rule="Mode-6531 local parts: (a) every 1- and 2-byte sequence, 3-byte sequences over boundary continuation values (quick) or all 255x255 "
         "(thorough), a structured 4-byte cover, each as atom / quoted / escaped / last bytes; (b) all strings of <= 6 (quick) / <= 8 (thorough) "
         "symbols over {a . \" \\ SP 0x01 U+0416 U+20AC U+10348 0x80 0xC3}; (c) the a.X.b / X\"q\" / \"\\X\" family over ~1000 code points; (d) grammar-based "
         "random local parts with non-ASCII next to dots and quotes; (e) the repository corpus; (f) the 29 length-sweep shapes of C02 with runs of 1-1100 (thorough 1-4200) 1- to 4-byte characters; (g) thorough only: six local parts of 2^31+200 octets with verdicts known by construction. Non-trivial = contains a byte >= 0x80 together with "
         "one of . \" \\, or is a malformed-UTF-8 candidate; distinct by byte-string hash.",
    assumptions=["reference: RFC 3629 strict decoder + RFC 5321 grammar over code points (oracle/ref.hpp), default build (no RFC6531_* option)",
                 "validators are called with `end` on the terminating '@' or NUL"],
    min_evaluations=dict(quick=1_000_000, thorough=30_000_000),
    technique="differential against an independent UTF-8 + grammar reference, bounded-exhaustive UTF-8 candidate enumeration, metamorphic x-substitution, rapidcheck generation",
    level_text="Exploration against an explicit reference model; the 1-2 byte and (thorough) 3-byte UTF-8 candidate spaces and short mixed strings are "
               "enumerated completely, 4-byte space by a structured cover, the rest sampled.",
    level_note="Trusted: oracle/ref.hpp (decoder + recogniser), sanitizers, shim.",
)

PROPS["C04"] = dict(
    level="exploration",
    default_binary="c04",
    binaries={"c04": dict(src=["props/c04.cpp"], variants=["dflt", "uchar"])},
    stages=[
        stage("corpus", workers=1),
        stage("lengths"),
        stage("huge", only="thorough", workers=2),
        stage("bounded"),
        stage("bytes"),
        stage("random", kind="rc", quick=4000, thorough=300000, max_size=100),
    ],
    rule="Domains: all strings of length <= 7 (quick) / <= 10 (thorough) over {a 1 - . _ !}; every label length 0-300 in first/middle/last position "
         "and alone (3 fillings, hyphen at either end); every total length 240-260 in 4 label layouts with 0/1/2 trailing dots and a leading dot; "
         "every byte 0x01-0xFF at first/interior/last position of a label; numeric shapes; grammar-generated and mutated ASCII and IDN host names; "
         "the repository's domain corpora; thorough only: two host names of 2^31+200 octets. Each is judged by is_ascii_domain and, as x@D with TLD checking off, by eav_is_email in all four "
         "modes. Non-trivial = at least two labels, or length >= 60, or contains a hyphen; distinct by byte-string hash.",
    assumptions=["reference: oracle/ref.hpp::host_ok written from the statement (RFC 1035 limits, LDH, optional single root dot)",
                 "mode 6531 is judged in one direction only, on the A-label form computed by the harness with libidn2 (trusted base)"],
    min_evaluations=dict(quick=1_000_000, thorough=20_000_000),
    technique="differential against an independent host-name reference: bounded-exhaustive strings, complete length/byte sweeps, rapidcheck generation; one-directional A-label check for mode 6531",
    level_text="Exploration against an explicit reference model; short-string space and the length / byte-position sweeps named in the quantifier are "
               "enumerated completely, long mixed inputs are sampled.",
    level_note="Trusted: oracle/ref.hpp::host_ok, libidn2 for the A-label form, sanitizers, shim.",
)

PROPS["C05"] = dict(
    level="exploration",
    default_binary="c05",
    binaries={"c05": dict(src=["props/c05.cpp"], variants=["dflt"])},
    stages=[
        stage("corpus", workers=1),
        stage("shapes"),
        stage("bounded"),
        stage("random", kind="rc", quick=5000, thorough=300000, max_size=100),
    ],
    rule="Bracketed domains: every IPv6 shape (0-8 groups before x 0-8 after '::' x 0-2 '::' x optional dotted-quad tail x group widths "
         "{1,4,5,0} x tags {IPv6:, none, ipv6:, foo:, ...}); every octet value 0-300 in each of the 4 positions, bare and as IPv6 tail; digit-count and "
         "dot-placement shapes; 1-3 bytes after ']' and a byte before '['; all strings of length <= 6 (quick) / <= 8 (thorough) over "
         "{1 a : . ] [ g} inside [IPv6:...], inside [...] and after [1.2.3.4; grammar-based random literals; the repository's literal lines. Each "
         "judged as x@D by eav_is_email (4 modes, TLD on) and by is_<mode>_email directly (TLD off). Non-trivial = domain starts with '[' and has >= 7 "
         "bytes; distinct by byte-string hash.",
    assumptions=["two-sided bound: lower = RFC 5321 4.1.3 with non-zero first octet (must accept), upper = exactly '[' addr ']' with dotted quad <= 255 or "
                 "[IPv6:]RFC 4291 text (must reject outside); nothing is demanded between the bounds (e.g. 0.x.x.x, 7 groups + '::')"],
    min_evaluations=dict(quick=1_000_000, thorough=10_000_000),
    technique="two-sided reference bound (must-accept / must-reject recognisers) over exhaustively enumerated literal shapes and short strings, plus rapidcheck generation",
    level_text="Exploration against explicit lower/upper reference recognisers; the shape parameters named in the quantifier and all short bracket "
               "contents are enumerated completely, the rest sampled.",
    level_note="Trusted: oracle/ref.hpp::literal (own recursive parser for RFC 5321 4.1.3 and RFC 4291 2.2 text), sanitizers, shim.",
)

PROPS["C09"] = dict(
    level="exploration",
    default_binary="c09",
    binaries={"c09": dict(src=["props/c09.cpp"], variants=["dflt", "o001"])},
    stages=[
        stage("lengths"),
        stage("words"),
        stage("random", kind="rc", quick=4000, thorough=250000, max_size=100),
    ],
    rule="Valid host names without root dot built from 0-3 leading labels (every length 1-63 for one leading label; an (l1,l2) grid - complete in "
         "thorough - for two; reserved words themselves as leading labels) followed by each of the 8 reserved suffixes and each one-edit neighbour "
         "(insert/delete/substitute at every position, plus hand-picked neighbours such as exampleA, example.co, foo.tests), in 4 case patterns, "
         "judged by is_special_domain, is_<mode>_email(tld on)->rc and eav_is_email with only the SPECIAL bit cleared, in 4 modes, in the default build and (all cases containing '_' plus a sample of the rest) in the LABELS_ALLOW_UNDERSCORE build. Every counted case "
         "ends in a reserved suffix or a neighbour of one, hence is non-trivial; distinct by domain hash.",
    assumptions=["reference: oracle/ref.hpp::reserved (whole-label, case-insensitive match of the last one / two labels)",
                 "domains that are not valid host names, and in mode 6531 domains the IDN library refuses, are outside the statement and skipped (counted)"],
    min_evaluations=dict(quick=500_000, thorough=5_000_000),
    technique="differential against a reference predicate over systematically enumerated label-length / suffix / neighbour / case combinations, plus rapidcheck generation",
    level_text="Exploration against an explicit reference predicate; the label-length dimension the implementation branches on is enumerated completely.",
    level_note="Trusted: oracle/ref.hpp::reserved and host_ok, sanitizers, shim.",
)

PROPS["C07"] = dict(
    level="exploration",
    default_binary="c07",
    binaries={"c07": dict(src=["props/c07.cpp"], variants=["dflt"])},
    stages=[
        stage("corpus"),
        stage("table"),
        stage("mass", kind="rc", quick=4, thorough=150, max_size=100),
        stage("random", kind="rc", quick=3000, thorough=250000, max_size=100),
    ],
    rule="Valid, non-reserved host names without root dot whose last label is: every row of data/punycode.csv (as is / upper / alternating case, "
         "after 1-4 leading labels), every proper prefix and proper suffix of a row, one-character extensions at either end, substitutions at 3 "
         "(quick) or all (thorough) positions, hyphenated and doubled neighbours, the row used as first label, the row alone (single label), the "
         "U-label spelling of every IDN row (mode 6531), random labels and mutated rows, every line of data/tld-domains.txt, and mass random unlisted labels through is_tld (100 000 per case: 6 M quick, 240 M thorough - enough to meet a 32-bit hash collision in the thorough tier); local parts vary (short, dotted, long dotted). Observed through "
         "is_<mode>_email(tld on)->rc, eav_is_email with all / no class bits allowed, is_tld and is_utf8_domain. Every case is a table row or a "
         "near miss of one (non-trivial); distinct by domain hash.",
    assumptions=["oracle = data/punycode.csv of the working tree parsed by an independent RFC 4180 reader + the documented class rule",
                 "U-label forms are converted by the harness with libidn2 (trusted base); domains the IDN library refuses are skipped in mode 6531"],
    min_evaluations=dict(quick=500_000, thorough=2_000_000),
    technique="differential against the CSV-derived table model: complete enumeration of all 1591 rows and their near misses in 4 modes, plus rapidcheck generation",
    level_text="Exploration against an explicit table model; all rows and their one-edit neighbourhoods are enumerated completely.",
    level_note="Trusted: the CSV reader and class rule in oracle/ref.hpp, libidn2, sanitizers, shim.",
)

PROPS["C08"] = dict(
    level="exploration",
    finite_quantifier=True,   # the property's quantifier is finite and every run enumerates it completely -> evidence.exhaustive = true
    default_binary="c08",
    binaries={"c08": dict(src=["props/c08.cpp"], variants=["dflt", "extra"])},
    stages=[
        stage("defaults", workers=1),
        stage("callback"),
        stage("real"),
    ],
    rule="Complete enumeration: all 2048 values of allow_tld bits 0-10 x {caller-installed callback returning each class 1-9, 0 and every negative "
         "code -1..-35, in the ASCII and the UTF-8 dispatch} x tld_check {0,1}; and x real addresses (two table rows per class taken from the CSV "
         "at run time, reserved names, unlisted TLD, non-FQDN, IPv4/IPv6 literals, an IDN TLD in both spellings, IDNA-mapped spellings, 'example' in front of a reserved TLD, root-dotted names) x 4 modes x tld_check {0,1} x {default, EAV_EXTRA} build, plus bits above 10; eav_init defaults (fields and behaviour, three pre-fills of the raw block). Non-trivial = a class result together with a "
         "mask that is neither empty nor full (the mask discriminates); distinct by (mode, tld_check, result/address, mask) hash.",
    assumptions=["class<->bit<->error-code pairing is by the *names* of the documented constants (EAV_TLD_X, TLD_TYPE_X, EEAV_TLD_X)",
                 "callbacks return 0-9 or a negative error code (10+ reaches the documented abort)", "no TLD class is asserted for a root-dotted name (C09 defines classes for names without root dot): the answer must be the same in the three ASCII modes and in both builds, and follow the bit of the class the record reports"],
    min_evaluations=dict(quick=1_000_000, thorough=1_000_000),
    technique="complete enumeration of the finite policy space (2^11 masks x classes x modes x tld_check) against the policy formula, through a caller-installed callback and real addresses",
    level_text="The quantifier is finite and is enumerated completely on every run (exhaustive: true); the oracle is the documented policy formula.",
    level_note="Trusted: the policy formula in props/c08.cpp, the CSV reader, sanitizers, shim (installs callbacks through the public ascii_cb/utf8_cb fields).",
)

PROPS["C11"] = dict(
    level="translation_validation",
    default_binary="c11",
    binaries={"c11": dict(src=["props/c11.cpp"], variants=["dflt"]),
              "c11py": dict(script="tools/c11_py.py", interp="python3-vt")},
    stages=[
        stage("regen", binary="c11py", workers=1),
        stage("rows"),
        stage("random", kind="rc", quick=2000, thorough=150000, max_size=100),
        stage("sequences", kind="rc", quick=2000, thorough=100000, max_size=100),
        stage("gencsv", binary="c11py", workers=8, quick=15, thorough=400),
    ],
    rule="Programs: util/gentld.pl and util/gen_utf8_pass_test.pl, run unmodified (a) on the shipped CSVs, output compared line by line with the shipped "
         "auto_tld.c / auto_tld.h / tld-domains.txt (timestamp masked); (b) gentld.pl on Hypothesis-generated CSVs (1-25 unique rows, six types, "
         "managers starting / not starting with 'Not assigned' or 'Retired' in mixed case, embedded commas, quotes, newlines, non-ASCII), emitted table "
         "parsed back and compared row by row (order, text, strlen+1, class by the documented rule). Compiled table: every row of punycode.csv / "
         "raw.csv looked up (is_tld, is_utf8_domain, three ASCII modes, U-label in mode 6531), every proper prefix / suffix / extension of a row and random labels absent from the CSV must not be found; sequences of lookups (each row followed by every row that is a part of it and the other way round, table neighbours, far ends, random sequences of 2-11 labels incl. parts / extensions of earlier ones) must each give the CSV's answer whatever was looked up before; CSV rows must be unique lower-case A-labels; tld-domains.txt line k = raw row k. "
         "Non-trivial = a table row, an absent near-miss label, an output line, or a generated CSV with at least one override row; distinct by content hash.",
    assumptions=["Perl interpreter and tools/perl5shim/Text/CSV.pm (stand-in for the uninstalled Text::CSV) are trusted",
                 "independent CSV reader and class rule in oracle/ref.hpp and tools/c11_py.py"],
    min_evaluations=dict(quick=20_000, thorough=50_000),
    extra_cov=lambda m: dict(programs=2 + m["stages"].get("gencsv", {}).get("evaluations", 0), disagreements_checked=0,
                             explanation="programs = the two shipped generator runs plus one gentld.pl run per generated CSV; no disagreement was found on this run"),
    technique="translation validation by differential: regenerate-and-diff of the shipped artefacts, row-by-row lookup of the compiled table against an independent CSV reader, Hypothesis-generated CSVs through the unmodified generator",
    level_text="Translation validation of the CSV -> table step: the shipped translation is re-run and compared completely; the compiled table is "
               "queried for every source row and for its near misses; the translator itself is exercised on generated inputs covering the branches "
               "the shipped data never takes (Retired).",
    level_note="Trusted: perl, the Text::CSV stand-in, the independent CSV reader; libidn2 for U-label rows.",
)

PROPS["C01"] = dict(
    level="exploration",
    default_binary="c01",
    binaries={"c01": dict(src=["props/c01.cpp"], variants=["dflt"])},
    stages=[
        stage("corpus"),
        stage("lengths"),
        stage("bounded"),
        stage("literals"),
        stage("random", kind="rc", quick=10000, thorough=300000, max_size=100),
    ],
    rule="Addresses: all strings of length 0-7 (quick) / 0-8 (thorough) over {a @ . [ ] 1 : \"}; local parts of 58-72 octets in 7 word shapes "
         "(atom, dotted, quoted, quoted pair, 2- and 4-byte UTF-8 whose byte count crosses 64 while the character count does not) x 5 domains; "
         "'@' placement shapes; the address-literal texts enumerated for C05 as domain part; grammar-based random addresses (valid / mutated local part x host, IDN host, literal; extra '@' at either end "
         "or anywhere; raw byte strings) with a random allow_tld; the repository's address corpus. Each is run in 4 modes x tld_check {0,1} through "
         "eav_is_email and is_<mode>_email. Non-trivial = at least one '@' with non-empty text on both sides; distinct by address hash. Health "
         "check: >= 10% of random cases have a local part on which the four reference scanners disagree (pins the mode wiring).",
    assumptions=["structural model uses the reference recognisers of oracle/ref.hpp; for mode 6531 host names only 'accepted => A-label form valid' is demanded",
                 "composition uses the library's own public per-part validators called as the in-tree callers do (end on '@' / NUL)",
                 "address literals between the two reference bounds may go either way"],
    min_evaluations=dict(quick=3_000_000, thorough=30_000_000),
    technique="model-based (reference split + per-part recognisers) and differential (high-level call vs composition of the public per-part validators vs direct per-mode call), bounded-exhaustive + rapidcheck generation",
    level_text="Exploration with two explicit oracles (an independent structural model and the composition of the library's own validators); short "
               "strings over the structural alphabet are enumerated completely.",
    level_note="Trusted: oracle/ref.hpp, libidn2 for A-label forms, sanitizers, shim.",
)

PROPS["C12"] = dict(
    level="exploration",
    default_binary="c12",
    binaries={"c12": dict(src=["props/c12.cpp"], variants=["dflt", "extra"])},
    stages=[
        stage("corpus"),
        stage("lengths"),
        stage("switched"),
        stage("bytes"),
        stage("bounded"),
        stage("random", kind="rc", quick=10000, thorough=300000, max_size=100),
    ],
    rule="Local parts of 56-72 octets in 7 word shapes x 5 domains; 11 mode-discriminating addresses on one object switched through every ordered pair of "
         "modes with and without a failed eav_setup in between; all strings of length <= 5 (quick) / <= 7 (thorough) over the 12-class pure-ASCII alphabet {a 1 . - @ [ ] : SP ( 0x01 _}; every ASCII byte "
         "except DQUOTE/backslash at 3 positions of the local part x 24 domain shapes (incl. root-dotted reserved names); grammar-based random addresses of the C01 generator (half of "
         "them steered into the 'pure ASCII, no quote/backslash' population) with default and random allow_tld; the repository corpus; all in 4 modes x tld_check {0,1}, in the default and in the EAV_EXTRA build. Non-trivial = the address has a non-empty domain part; distinct by address hash.",
    assumptions=["pure differential between the modes of one build; what each mode should accept is pinned by C02-C05",
                 "mode 6531 may answer EEAV_IDN_ERROR where the ASCII modes accept or report a domain/TLD code (host names only)"],
    min_evaluations=dict(quick=3_000_000, thorough=30_000_000),
    technique="cross-mode differential and inclusion relations over bounded-exhaustive pure-ASCII strings and rapidcheck-generated addresses",
    level_text="Exploration by differential relations between the four modes; the short pure-ASCII string space is enumerated completely.",
    level_note="Trusted: sanitizers, shim; reference recognisers only select the sub-population for relation (iii).",
)

PROPS["C15"] = dict(
    level="exploration",
    default_binary="c15",
    binaries={"c15": dict(src=["props/c15.cpp"], variants=["dflt", "o001"])},
    stages=[
        stage("setup", workers=1),
        stage("codes", workers=1),
        stage("targets"),
        stage("literals"),
        stage("random", kind="rc", quick=10000, thorough=300000, max_size=100),
    ],
    rule="Inputs: the repository corpus and ~45 hand-picked addresses (one or more per error code), each with every one-byte insertion / replacement "
         "from {. \" @ SP - 0x80 \\ [ 0x01} and every one-byte deletion; the address-literal texts enumerated for C05 as domain part; grammar-based random addresses of the C01 generator with default and "
         "random allow_tld; all in 4 modes x tld_check {0,1}; addresses whose domain contains '_' are also judged in the LABELS_ALLOW_UNDERSCORE build. eav_setup with 16 rfc values (4 defined, -1, 4, 5, 7, 100, 255, 256, 65536, INT_MAX, "
         "INT_MIN, ...) after 7 kinds of preceding outcome. All 35 codes through a caller-installed callback (ASCII and UTF-8 dispatch) for the "
         "message rules. Non-trivial = a rejected (input, mode, tld_check) triple; distinct by (error code, mode, tld_check, input) hash. The "
         "classes 'code:<NAME>' in this file list which codes real inputs produced.",
    assumptions=["necessary conditions per code are written from the property statement and the message texts; domain codes are judged on the "
                 "A-label form in mode 6531 (libidn2 trusted)", "message wording is not frozen: only 'same code => same text', pairwise different "
                 "texts, the keywords local / domain|label / ip / TLD / RFC, the three phrases quoted in the statement and one concept word per code (with synonyms: e.g. 'hyphen|dash' for MISPLACED_HYPHEN) are required",
                 "root-dot spellings are not judged for TLD-level codes (outside C07/C09)"],
    min_evaluations=dict(quick=3_000_000, thorough=30_000_000),
    technique="per-error-code necessary-condition predicates (independent of the implementation) + differential against the public per-part validators, over mutation-based and rapidcheck-generated inputs",
    level_text="Exploration: every rejected outcome is checked against a predicate on the input that must hold if the reported reason is truthful; "
               "one-edit neighbourhoods of inputs for every code are enumerated, the rest sampled.",
    level_note="Trusted: oracle/ref.hpp, the predicates in props/c15.cpp, libidn2 (messages and A-label forms), sanitizers, shim.",
)

PROPS["C16"] = dict(
    level="exploration",
    default_binary="c16",
    binaries={"c16": dict(src=["props/c16.cpp"], variants=["dflt", "extra"])},
    stages=[
        stage("corpus"),
        stage("forms"),
        stage("bounded"),
        stage("literals"),
        stage("random", kind="rc", quick=8000, thorough=300000, max_size=100),
    ],
    rule="All strings of length <= 6 (quick) / <= 7 (thorough) over {a @ . [ ] 1 : \"}; 8 local-part forms x 23 domain forms (host, reserved, "
         "unlisted, single label, IDN in both spellings, IPv4/IPv6 literals tagged and untagged, malformed literals, root dot) x 3 masks; the address-literal texts enumerated for C05 (incl. every byte value at each position of the tag) as domain part; grammar-based random addresses; the repository corpus; each in 4 modes x tld_check {0,1}, through eav_is_email and is_<mode>_email, in the "
         "default build and the EAV_EXTRA build (two variants linked into one process). Non-trivial = accepted in some mode, or rejected with a "
         "local part that is valid in some mode; distinct by address hash.",
    assumptions=["the form of the domain (host / IPv4 / IPv6) and 'syntactically invalid' come from the reference recognisers of oracle/ref.hpp",
                 "flags of syntactically valid addresses rejected for FQDN/TLD reasons are not specified by the statement and not judged"],
    min_evaluations=dict(quick=3_000_000, thorough=30_000_000),
    technique="rule-based oracle over the result record + differential between the default and the EAV_EXTRA build, bounded-exhaustive + rapidcheck generation",
    level_text="Exploration against explicit record rules; short strings over the structural alphabet enumerated completely in both builds.",
    level_note="Trusted: oracle/ref.hpp, libidn2 (A-label forms), sanitizers, shim (copies lpart/domain out of the record).",
)

PROPS["C10"] = dict(
    level="exploration",
    default_binary="c10",
    binaries={"c10": dict(src=["props/c10.cpp"], variants=["dflt"])},
    stages=[
        stage("corpus"),
        stage("tlds"),
        stage("scripts"),
        stage("random", kind="rc", quick=8000, thorough=300000, max_size=100),
    ],
    rule="Domains: every IDN TLD row of the table in U- and A-form x 10 placements; single code points of 11 script ranges (Cyrillic lower/upper, "
         "Greek, Han, Hangul, Arabic, Hebrew, Devanagari, Latin-1, full-width Latin, Hiragana) x 5 placements; labels of 1-64 characters per script "
         "(A-label crossing the 63 limit); 2-6 labels of 10-63 characters per script under 3 TLDs (UTF-8 spelling of 150-1200 octets, crossing 253/255 "
         "independently of the A-label form); 30 invalid or mapped forms (disallowed code points, ZWJ, hyphen rules, fake A-labels, malformed UTF-8, "
         "bidi violations, sharp s / final sigma); grammar-based random IDN and ASCII host names (1-4 labels, mixed scripts, case variants); the "
         "repository corpus and data/tld-domains.txt. Non-trivial = a real conversion happened (U differs from A) or the IDN library refuses the "
         "domain; distinct by domain hash.",
    assumptions=["libidn2 (idn2_to_ascii_8z, IDN2_NONTRANSITIONAL) called by the harness is the trusted base for 'IDNA2008-valid' and for the A-label form",
                 "only what the installed libidn2 2.3.3 calls valid can be quantified over"],
    min_evaluations=dict(quick=1_000_000, thorough=10_000_000),
    technique="metamorphic relation U-label <-> A-label with the IDN library as trusted converter, plus cross-mode differential on the A-label spelling; systematic script/TLD enumeration + rapidcheck generation",
    level_text="Exploration by a metamorphic relation (spelling change must not change the outcome); all IDN rows of the table and a systematic "
               "cover of scripts and label lengths are enumerated, mixed domains are sampled.",
    level_note="Trusted: libidn2 as converter, sanitizers, shim.",
)

PROPS["C19"] = dict(
    level="fault_enumeration",
    default_binary="c19",
    binaries={"c19": dict(src=["props/c19.cpp"], variants=["fault", "xfault"])},
    stages=[
        stage("single"),
        stage("random", kind="rc", quick=600, thorough=10000, max_size=100),
    ],
    rule="Fault schedules over runs of validations on one eav_t (mode 6531 mixed with ASCII-mode calls, 16 address kinds): a single fault for every "
         "idn2 return code of the installed header (28 constants incl. IDN2_MALLOC, plus unknown -999 / -1 and positive 1 / 7) x {output buffer "
         "produced, not produced} x every conversion position of runs of 1, 2 and 8 validations and the ends and every 7th position of runs of "
         "50, in 3 workload templates, in the default and the EAV_EXTRA build (which may convert more than once per validation); random schedules of 0-5 faults over runs of 1-50 validations; the address pool has 24 kinds incl. domains of 1023-5000 octets and ZWJ/ZWNJ domains. Non-trivial = a run with at least one fault "
         "followed by at least one normal validation; distinct by (steps, schedule) hash.",
    assumptions=["faults are injected by redirecting the library's reference to idn2_to_ascii_8z at link time (no source hook)",
                 "allocation failure inside libeav itself is excluded by the statement", "LeakSanitizer's recoverable leak check after each run is the leak oracle"],
    min_evaluations=dict(quick=50_000, thorough=500_000),
    technique="fault injection at the IDN converter with enumerated single faults (code x buffer x position) and rapidcheck-generated multi-fault schedules; per-step model + fresh-object differential + ASan/LSan",
    level_text="Fault enumeration: the converter's whole return-code set is injected at every conversion position of short runs; containment is "
               "judged per step against a fresh object, leaks and double frees by the sanitizers.",
    level_note="Trusted: libidn2's idn2_strerror, ASan/LSan, objcopy symbol redirection, shim.",
)

PROPS["C13"] = dict(
    level="exploration",
    default_binary="c13",
    binaries={"c13": dict(src=["props/c13.cpp"], variants=["dflt"])},
    stages=[
        stage("exhaustive"),
        stage("random", kind="rc", quick=4000, thorough=150000, max_size=100),
    ],
    rule="Histories on one eav_t: all operation sequences of length <= 6 (quick) / <= 7 (thorough) over a 12-operation pool {rfc=5321, rfc=6531, "
         "rfc=7 (invalid), tld_check=0, allow_tld=0, eav_setup, eav_is_email on 4 addresses (accepted IDN, local-part error, IDN error, plain "
         "accept), eav_errstr, eav_free+eav_init} after an initial eav_setup; random histories of up to 200 operations (mode changes with and "
         "without eav_setup, invalid rfc values -1/4/7/INT_MAX, tld_check, allow_tld in 0..2047, eav_errstr, eav_free+eav_init) over per-history "
         "pools of 2-13 addresses from the repository corpus and the C01 generator. Every eav_is_email outcome is compared with a fresh object of the same process and with a fresh object in a process that has never called libeav before (helper forked before the first call, one new grandchild per query, memoised). Non-trivial = at least two eav_is_email calls with a mode or "
         "setting change between them; distinct by history hash.",
    assumptions=["precondition from the manual: eav_is_email only after a successful eav_setup since eav_init; eav_errstr after a failed eav_setup belongs to C15",
                 "the fresh-object outcome (same process, and a pristine process) is the specification of 'depends only on current settings and address'"],
    min_evaluations=dict(quick=1_000_000, thorough=10_000_000),
    technique="stateful model-based testing: bounded-exhaustive and rapidcheck-generated operation sequences against a settings model and a fresh-object differential, under ASan + LSan",
    level_text="Exploration of call histories: all short sequences over a pool that alternates outcome kinds are enumerated; long random histories are sampled and shrunk.",
    level_note="Trusted: the settings model in props/c13.cpp, ASan/LSan, shim.",
)

PROPS["C18"] = dict(
    level="exploration",
    default_binary="c18",
    binaries={"c18": dict(src=["props/c18.cpp", "adapters/adapter.c"], variants=["b_idn2", "b_idn", "b_idnkit"])},
    stages=[
        stage("corpus"),
        stage("histories"),
        stage("random", kind="rc", quick=4000, thorough=150000, max_size=100),
        stage("randhist", kind="rc", quick=1500, thorough=15000, max_size=100),
    ],
    rule="Configurations: the three partial/<backend> source sets built by the repository's Makefile (FORCE_IDN=idn2|idn|idnkit) against adapter "
         "headers, linked into one process. Inputs: the repository corpus, every line of tld-domains.txt, every table row, grammar-based random "
         "addresses and IDN hosts (4 modes x tld_check {0,1}, default / random allow_tld, eav_is_email and is_<mode>_email); histories: all operation "
         "sequences of length <= 5 (quick) / <= 6 (thorough) over the 12-operation pool of C13 and random histories of up to 120 operations, "
         "executed in lockstep on the three builds with the adapter's context counters read after every step. Non-trivial = address with a "
         "host-name domain (the IDN path is reachable) / history with at least one eav_setup; distinct by input hash.",
    assumptions=["real libidn and idnkit are not installed: what is verified is the repository's glue code in all three source sets under equivalent "
                 "conversions (adapters/adapter.c maps both APIs onto idn2_to_ascii_8z, IDN2_NONTRANSITIONAL), as the statement words it",
                 "backend state = idnkit contexts counted by the adapter (malloc'd token per context: LSan sees leaks, abort on destroy of a dead context)"],
    min_evaluations=dict(quick=2_000_000, thorough=20_000_000),
    technique="configuration differential: three backend builds in one process compared on every generated address and at every step of enumerated and rapidcheck-generated histories; resource-count invariant on the adapter",
    level_text="Exploration by differential between build configurations plus a resource invariant (contexts created == destroyed, one live context per object in mode 6531) checked after every operation.",
    level_note="Trusted: the adapters (70 lines), libidn2, ASan/LSan, the Makefile's FORCE_IDN/DEFS mechanism, shim.",
)

PROPS["C14"] = dict(
    level="exploration",
    default_binary="c14",
    binaries={"c14": dict(src=["props/c14.cpp"], variants=["tsan"], san="tsan")},
    stages=[
        stage("workloads", kind="rc", quick=150, thorough=2500, max_size=100, workers=16),
    ],
    rule="Schedules: workloads of 2-16 threads, each running 120-380 calls on its own eav_t (eav_setup to any mode, tld_check / allow_tld changes, "
         "eav_is_email) mixed with is_<mode>_email and the stateless per-part validators called directly on shared read-only strings (the "
         "repository corpus + reserved / literal / IDN addresses), with generated yield points; every workload is executed sequentially, then three "
         "times concurrently from a barrier with different yield patterns, in a ThreadSanitizer build of library and harness. Non-trivial = every "
         "thread completed >= 100 validations after the barrier; distinct by workload hash. 16 workloads run at the same time on 16 cores, so the "
         "machine is oversubscribed (real preemption).",
    assumptions=["this family does not enumerate interleavings: TSan flags a conflicting access pair whenever both accesses are executed without a "
                 "happens-before edge, whatever the timing; races needing a rare path in two threads at once, or inside the uninstrumented IDN library, can be missed",
                 "each thread uses its own eav_t (the documented usage); shared strings are never written"],
    min_evaluations=dict(quick=200_000, thorough=4_000_000),
    technique="schedule exploration with a race detector: rapidcheck-generated multi-thread workloads under ThreadSanitizer with yield perturbation, plus concurrent-vs-sequential result differential",
    level_text="Exploration: ThreadSanitizer is the race oracle (independent of the schedule actually taken for executed access pairs), the "
               "sequential execution of the same call lists is the result oracle. No interleaving coverage is claimed.",
    level_note="Trusted: ThreadSanitizer (clang 14), pthreads; libidn2 is not instrumented.",
)

PROPS["C06"] = dict(
    level="exploration",
    default_binary="c06",
    binaries={"c06": dict(src=["props/c06.cpp"], variants=["dflt", "extra"]),
              "fuzzapi": dict(src=["fuzz/fuzz_api.cpp"], variants=["dfuzz"], san="fuzz", libs=["-lidn2"]),
              "vgreplay": dict(src=["drivers/vg_replay.c"], variants=["plain", "pextra"], san="plain", libs=["-lidn2"]),
              "work": dict(src=["drivers/work.c"], variants=["pfault"], san="plain", libs=["-lidn2"])},
    stages=[
        stage("shapes"),
        stage("guard"),
        stage("sweep"),
        stage("stack"),
        stage("random", kind="rc", quick=3000, thorough=250000, max_size=100),
        stage("callgrind", binary="work", runner=runners.run_callgrind),
        stage("valgrind", binary="vgreplay", runner=runners.run_valgrind, quick=1200, thorough=6000),
        stage("fuzz", binary="fuzzapi", kind="fuzz", runner=runners.run_fuzz, quick=40000, thorough=2000000, max_len=300),
    ],
    rule="Inputs (NUL-terminated, length == strlen): 55 template addresses x every structural position (first, last, each side of @ [ ] . \" \\ :) x "
         "every byte 0x01-0xFF x {insert, replace}; 14 adversarial shapes x 18 lengths from 0 to 64 KiB and all 1-byte inputs; the repository corpus "
         "and all prefixes of the templates in a read-only page against a PROT_NONE page; grammar-based random addresses (some padded to "
         "0.2-3 KiB); libFuzzer campaigns (16 workers, half seeded from data/*.txt, half from an empty corpus). Every input goes through every public "
         "entry point (eav_is_email in 4 modes x tld_check {0,1}, is_<mode>_email, all per-part validators on the whole string and on both "
         "halves) in the default and EAV_EXTRA builds under ASan+UBSan+LSan, with the raw eav_t block pre-filled with three patterns before eav_init, and with eav_t blocks on the stack (alloca, garbage-filled). "
         "valgrind memcheck replays generated inputs in an uninstrumented build with eav_t from malloc; callgrind measures instruction counts of "
         "19 entry points x 22 shapes (incl. adversaries for the span sets '0.', hex digits, ':') x sizes up to 64 KiB. Non-trivial = the input reaches the domain stage (non-empty text on both sides of "
         "'@') or is >= 1 KiB, or is a work measurement with n >= 4096; distinct by input hash.",
    assumptions=["allocation failure inside libeav is excluded by the statement", "reads inside the caller's string but outside [start,end) are allowed by the statement",
                 "linear time: I(2n)-I(0) <= 2.5 (I(n)-I(0)) + 40 n + 1e4 and I(n)-I(0) <= 1000 n + 1e5 instructions, with the IDN converter replaced by a pass-through so that libidn2's own cost is not attributed to libeav",
                 "libFuzzer slow-unit/timeout/oom artifacts are load noise and ignored; only crash-/leak- artifacts and oracle traps count"],
    min_evaluations=dict(quick=10_000_000, thorough=100_000_000),
    technique="sanitizer-instrumented generated inputs (positional byte sweep, adversarial shapes, guard pages, rapidcheck, libFuzzer), poison differential on the eav_t block, valgrind memcheck replay, callgrind instruction-count doubling relation",
    level_text="Exploration with instrumentation as oracle: ASan/UBSan/LSan on every generated case, valgrind memcheck for uninitialised reads "
               "with the real IDN library in the loop, deterministic instruction counts for the linear-time clause.",
    level_note="Trusted: clang sanitizers, valgrind 3.19 (memcheck, callgrind), libFuzzer.",
)

PROPS["C17"] = dict(
    level="exploration",
    default_binary="c17",
    binaries={"c17": dict(src=["props/c17.cpp"], variants=["dflt", "o000", "o001", "o010", "o011", "o100", "o101", "o110", "o111"])},
    stages=[
        stage("addresses"),
        stage("domains"),
        stage("locals"),
        stage("random", kind="rc", quick=2500, thorough=150000, max_size=100),
    ],
    rule="Configurations: the 8 combinations of RFC6531_FOLLOW_RFC5322 / RFC6531_FOLLOW_RFC20 / LABELS_ALLOW_UNDERSCORE given on make's command line, "
         "plus the build with no variable given, all linked into one process. Inputs: local parts = all strings <= 5 (quick) / <= 6 (thorough) "
         "over the C02 alphabet and over {a . \" \\ SP # ~ { U+0416 0x01}, <= 6 / <= 7 over {a \" SP U+0416 U+20AC 0xFF \\ LF}, every byte in 5 "
         "positions; domains = all strings <= 7 / <= 8 over {a 1 - . _ !}, 20 underscore shapes, 62-64 character labels with '_'; addresses = "
         "repository corpus, 16 x 11 hand-picked local/domain forms, grammar-based random local parts / domains / addresses with RFC 20 characters "
         "and underscores injected; 4 modes x tld_check {0,1}. Non-trivial = the input contains an RFC 20 character, a '_' or a quoted "
         "whitespace/control, i.e. one an option can act on; distinct by (kind, input) hash.",
    assumptions=["RFC5322 option: for a well-formed-UTF-8, non-ASCII local part containing whitespace or a control character inside quotes the option "
                 "build's decision is not judged (the statement pins pure-ASCII local parts; the repository's own option-build expectations accept "
                 "such inputs) - see DESIGN.md C17",
                 "UNDERSCORE differential ('_' -> 'q' in the default build) is applied only without xn-- labels and, with TLD checking, when the last label has no '_'"],
    min_evaluations=dict(quick=10_000_000, thorough=100_000_000),
    technique="configuration differential: nine builds in one process against a reference recogniser parameterised by the options, stated per-option relations, and per-build composition of the public validators; bounded-exhaustive + rapidcheck generation",
    level_text="Exploration by differential between build configurations with an explicit option-aware model; short strings over the alphabets the "
               "options act on are enumerated completely in all builds.",
    level_note="Trusted: oracle/ref.hpp with LocalOpts / underscore flag, the Makefile variable mechanism, sanitizers, shim.",
)

def _prepare_cli(ctx):
    exe, lib = ctx["scr"].build_cli()
    ctx["replay_args"] = ["--cli", exe, "--clilib", lib]


PROPS["C20"] = dict(
    level="exploration",
    default_binary="c20",
    binaries={"c20": dict(src=["props/c20.cpp"], variants=["dflt"])},
    prepare=_prepare_cli,
    stages=[
        stage("shapes"),
        stage("random", kind="rc", quick=1000, thorough=12000, max_size=100),
    ],
    rule="Files: 0-60 lines drawn from {empty, blanks only, '#' comment, ' #' not-a-comment, valid/invalid addresses of the C01 generator, lines of "
         "1022-8192 bytes, 0.5-3.5 KiB lines with control characters, lines with a stray byte >= 0x80, embedded CR, control characters, 0-2 leading / "
         "trailing blanks, embedded NUL, IDN addresses} x {LF, CRLF} per line x final newline present/absent (rapidcheck, shrunk to the offending "
         "lines); single-line files for 20 line shapes and lengths around 1024/2048/4096/8192 in three fillings x three terminators; lines of 100-260 and ~30 other lengths that end inside a multi-byte sequence (6 truncated tails), as first or second line; the "
         "repository's data files; a quarter of the random cases and 7 fixed pairs also run the tool on two files in one invocation (output must be the two per-file outputs one after the other). The ASan+UBSan build of bin/eav (make app) runs as a subprocess per file. Non-trivial = the file has an empty, "
         "long, invalid-UTF-8 or control-character line, a CRLF terminator or no final newline; distinct by file hash.",
    assumptions=["line model = the tool's documented trimming (terminator, one leading space, one trailing blank); '#' in column 1 is a comment",
                 "verdict and message come from the in-process library with eav_init defaults, exactly what bin/main.c configures",
                 "lines containing NUL are judged for robustness and verdict count only (tool and API are C-string based)"],
    min_evaluations=dict(quick=100000, thorough=3000000),
    technique="differential CLI vs in-process library over rapidcheck-generated files with a line model, sanitizer build of the tool as crash oracle",
    level_text="Exploration: generated files through the real tool (sanitizer build) with an explicit line model and the library as verdict oracle.",
    level_note="Trusted: the line model in props/c20.cpp, ASan/UBSan, posix_spawn plumbing.",
)


def _add_fuzz(pid, src, variants, renames, quick, thorough, max_len=200):
    """coverage-guided stage: the property's own case oracle compiled as a libFuzzer target (-DVF_FUZZ)
    against fuzzer-instrumented variants; failures carry the property's case and replay in the default binary"""
    defs = ["-DVF_FUZZ"] + ["-D%s_api=%s_api" % (a, b) for a, b in renames]
    name = PROPS[pid]["default_binary"] + "fz"
    PROPS[pid]["binaries"][name] = dict(src=[src], variants=variants, san="fuzz", defs=defs, libs=["-lrapidcheck", "-lidn2"])
    PROPS[pid]["stages"].append(stage("fuzz", binary=name, kind="fuzz", runner=runners.run_fuzz, quick=quick, thorough=thorough, max_len=max_len, dict="fuzz/dict.txt"))
    PROPS[pid]["rule"] += (" Coverage-guided stage: the same oracle as a libFuzzer target (16 workers, half seeded from data/*.txt, half from an empty corpus, "
                           "dictionary of structural tokens), %d executions per worker quick / %d thorough." % (quick, thorough))
    PROPS[pid]["technique"] += "; libFuzzer with the oracle inside the target"


_D = [("dflt", "dfuzz")]
_add_fuzz("C01", "props/c01.cpp", ["dfuzz"], _D, 15000, 1500000)
_add_fuzz("C02", "props/c02.cpp", ["dfuzz"], _D, 60000, 4000000, max_len=120)
_add_fuzz("C03", "props/c03.cpp", ["dfuzz"], _D, 60000, 4000000, max_len=120)
_add_fuzz("C04", "props/c04.cpp", ["dfuzz"], _D, 30000, 2000000, max_len=300)
_add_fuzz("C05", "props/c05.cpp", ["dfuzz"], _D, 30000, 2000000, max_len=120)
_add_fuzz("C07", "props/c07.cpp", ["dfuzz"], _D, 15000, 1000000, max_len=120)
_add_fuzz("C09", "props/c09.cpp", ["dfuzz", "f001"], _D + [("o001", "f001")], 30000, 2000000, max_len=300)
_add_fuzz("C10", "props/c10.cpp", ["dfuzz"], _D, 10000, 1000000)
_add_fuzz("C12", "props/c12.cpp", ["dfuzz"], _D, 15000, 1500000)
_add_fuzz("C15", "props/c15.cpp", ["dfuzz", "f001"], _D + [("o001", "f001")], 15000, 1500000)
_add_fuzz("C16", "props/c16.cpp", ["dfuzz", "efuzz"], _D + [("extra", "efuzz")], 10000, 1000000)
_add_fuzz("C17", "props/c17.cpp", ["dfuzz"] + ["f%d%d%d" % (a, b, c) for a in (0, 1) for b in (0, 1) for c in (0, 1)],
          _D + [("o%d%d%d" % (a, b, c), "f%d%d%d" % (a, b, c)) for a in (0, 1) for b in (0, 1) for c in (0, 1)], 5000, 500000, max_len=120)


def stages_for(pid, tier):
    out = []
    for s in PROPS[pid]["stages"]:
        if s.get("only") and s["only"] != tier:
            continue
        out.append(s)
    return out
