"""registry.py — what each property's check consists of: binaries (harness sources
+ libeav variants), stages with case budgets per tier, evidence texts."""

RC = "-lrapidcheck"
IDN = "-lidn2"


def stage(name, kind="enum", quick=1, thorough=1, **kw):
    d = dict(name=name, kind=kind, quick=quick, thorough=thorough)
    d.update(kw)
    return d


PROPS = {}
NOT_APPLICABLE = {}

PROPS["C02"] = dict(
    level="exploration",
    default_binary="c02",
    binaries={"c02": dict(src=["props/c02.cpp"], variants=["dflt"])},
    stages=[
        stage("corpus", workers=1),
        stage("automaton"),
        stage("bounded"),
        stage("random", kind="rc", quick=6000, thorough=120000, max_size=100),
    ],
    rule="Local parts are (a) every string prefix+byte+suffix of the automaton-conformance suite, (b) every string of length <= 6 (quick) / <= 7 "
         "(thorough) over 13 class-representative bytes, (c) grammar-generated valid and mutated local parts up to 300 octets, (d) the repository's "
         "local-part corpus; each judged in modes 822/5321/5322 against the reference recogniser, with '@' and with NUL after the local part. "
         "Non-trivial = accepted by the reference, or >= 2 bytes long with a first byte that does not reject at once (atom character or DQUOTE); "
         "distinct = by (mode, bytes) hash.",
    assumptions=["reference recogniser oracle/ref.hpp::local_ok is the specification (written from the statement and RFC 822/5321/5322 grammars)",
                 "validators are called with `end` on the terminating '@' or NUL, as every in-tree caller does"],
    min_evaluations=dict(quick=10_000_000, thorough=100_000_000),
    technique="differential against an independent reference recogniser: automaton-conformance suite + bounded-exhaustive enumeration + rapidcheck grammar-based generation with shrinking",
    level_text="Exploration by generated inputs against an explicit reference model. Two finite sub-spaces are enumerated completely (every byte in every "
               "reference-automaton state with distinguishing suffixes; all strings up to length 6/7 over 13 class representatives), which pins the "
               "per-state byte tables of all three scanners; long and structured inputs are sampled by grammar-based generation. Absence of "
               "violations outside those sets is not established.",
    level_note="Trusted: the reference recogniser (oracle/ref.hpp, ~60 lines, written from the statement); clang ASan/UBSan; the shim (public API only).",
)


def stages_for(pid, tier):
    out = []
    for s in PROPS[pid]["stages"]:
        if s.get("only") and s["only"] != tier:
            continue
        out.append(s)
    return out
