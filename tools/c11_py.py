#!/usr/bin/env python3
"""C11, program-level stages (run with the tooling interpreter python3-vt).

  --stage regen   : run the repository's two generators, unmodified, on the shipped
                    CSVs and compare their output with the shipped artefacts line by
                    line (generation timestamp masked).
  --stage gencsv  : the generator as program under test: Hypothesis generates CSV
                    files (rows with 'Not assigned' / 'Retired' managers in mixed
                    case, embedded commas/quotes/newlines, all six types), gentld.pl
                    translates them, the emitted table is parsed back and compared
                    row by row with the documented rule.
Perl's Text::CSV is not installed here; tools/perl5shim/Text/CSV.pm stands in (trusted).
Writes the same worker report format as the C++ harnesses.
"""
import os, sys, re, json, shutil, struct, hashlib, subprocess, tempfile, argparse

VERIF = os.path.dirname(os.path.dirname(os.path.abspath(__file__)))
SHIM = os.path.join(VERIF, "tools", "perl5shim")
TYPES = {"generic": "TLD_TYPE_GENERIC", "country-code": "TLD_TYPE_COUNTRY_CODE", "generic-restricted": "TLD_TYPE_GENERIC_RESTRICTED",
         "infrastructure": "TLD_TYPE_INFRASTRUCTURE", "test": "TLD_TYPE_TEST", "sponsored": "TLD_TYPE_SPONSORED"}


def h64(s):
    return struct.unpack("<Q", hashlib.sha256(s.encode("utf-8", "replace")).digest()[:8])[0]


class Report:
    def __init__(self, a):
        self.a = a
        self.d = dict(stage=a.stage, worker=a.worker, evaluations=0, nontrivial_local=0, nt_capped=False, health_fail=False, classes={}, samples={},
                      known_hits={}, exhaustive=[], notes=[], failures=[])
        self.hashes = set()

    def count(self, k, n=1):
        self.d["classes"][k] = self.d["classes"].get(k, 0) + n

    def sample(self, k, s, cap=3):
        l = self.d["samples"].setdefault(k, [])
        if len(l) < cap:
            l.append(s)

    def fail(self, cls, case, explain):
        self.d["failures"].append(dict(cls=cls, case=case, explain=explain))

    def write(self):
        base = os.path.join(self.a.out, "%s-%d" % (self.a.stage, self.a.worker))
        with open(base + ".hashes", "wb") as f:
            for h in sorted(self.hashes):
                f.write(struct.pack("<Q", h))
        self.d["nontrivial_local"] = len(self.hashes)
        json.dump(self.d, open(base + ".json", "w"))
        return 3 if self.d["failures"] else 0


def rule_class(typ, manager):
    if manager.lower().startswith("not assigned"):
        return "TLD_TYPE_NOT_ASSIGNED"
    if manager.lower().startswith("retired"):
        return "TLD_TYPE_RETIRED"
    return TYPES[typ]


def masked(lines):
    return [re.sub(r"auto-generated at [0-9: -]+", "auto-generated at <timestamp>", l) for l in lines]


def copy_repo(src, dst):
    for d in ("util", "data", "include", "src"):
        shutil.copytree(os.path.join(src, d), os.path.join(dst, d))
    shutil.copy2(os.path.join(src, "Makefile"), dst)
    os.makedirs(os.path.join(dst, "partial", "idn2"), exist_ok=True)


def stage_regen(a, R):
    tmp = tempfile.mkdtemp(prefix="c11regen.", dir=a.out)
    try:
        copy_repo(a.repo, tmp)
        env = {k: v for k, v in os.environ.items() if k not in ("MAKEFLAGS", "PERL")}
        p = subprocess.run(["make", "auto", "tld-domains", "PERL=perl -I" + SHIM], cwd=tmp, env=env, stdout=subprocess.PIPE, stderr=subprocess.STDOUT, text=True)
        if p.returncode != 0:
            R.fail("generator-failed", "py:regen", "make auto tld-domains failed: " + p.stdout[-800:])
            return
        for rel in ("src/auto_tld.c", "include/eav/auto_tld.h", "data/tld-domains.txt"):
            new = masked(open(os.path.join(tmp, rel), encoding="utf-8", errors="replace").read().split("\n"))
            old = masked(open(os.path.join(a.repo, rel), encoding="utf-8", errors="replace").read().split("\n"))
            R.d["evaluations"] += max(len(new), len(old))
            for i in range(max(len(new), len(old))):
                x = new[i] if i < len(new) else "<missing>"
                y = old[i] if i < len(old) else "<missing>"
                if x.strip():
                    R.hashes.add(h64(rel + "|" + x))
                if x != y:
                    R.fail("regenerated-differs", "py:regen", "%s line %d: shipped %r, regenerated from the shipped CSV %r" % (rel, i + 1, y, x))
                    return
            R.count("lines:" + rel, len(new))
            R.sample("regen", "%s: %d lines identical (timestamp masked)" % (rel, len(new)))
        R.d["exhaustive"].append(dict(space="C11 regenerated auto_tld.c, auto_tld.h, tld-domains.txt compared line by line with the shipped files", size=R.d["evaluations"]))
    finally:
        shutil.rmtree(tmp, ignore_errors=True)


def csv_quote(s):
    return '"' + s.replace('"', '""') + '"'


def run_gentld(a, rows, work):
    csvp = os.path.join(work, "in.csv")
    with open(csvp, "w", encoding="utf-8", newline="") as f:
        f.write('"Domain","Type","TLD Manager"\n')
        for d, t, m in rows:
            f.write(",".join(csv_quote(x) for x in (d, t, m)) + "\n")
    hp, cp = os.path.join(work, "out.h"), os.path.join(work, "out.c")
    p = subprocess.run(["perl", "-I" + SHIM, os.path.join(a.repo, "util", "gentld.pl"), hp, cp, csvp], stdout=subprocess.PIPE, stderr=subprocess.STDOUT, text=True)
    if p.returncode != 0:
        return None, "gentld.pl exit %d: %s" % (p.returncode, p.stdout[-300:])
    got = []
    for line in open(cp, encoding="utf-8"):
        m = re.match(r'\s*\{ "(.*)", (\d+), (TLD_TYPE_[A-Z_]+) \},\s*$', line)
        if m:
            got.append((m.group(1), int(m.group(2)), m.group(3)))
    text = open(cp, encoding="utf-8").read()
    if "{ NULL, 0, 0 }" not in text:
        return None, "terminator row missing"
    hdr = open(hp, encoding="utf-8").read()
    order = re.findall(r"TLD_TYPE_[A-Z_]+", hdr)
    want_order = ["TLD_TYPE_UNUSED", "TLD_TYPE_NOT_ASSIGNED"] + sorted(TYPES.values()) + ["TLD_TYPE_SPECIAL", "TLD_TYPE_RETIRED", "TLD_TYPE_MAX"]
    if order != want_order:
        return None, "header enum order %s" % order
    return got, None


def check_csv(a, rows, work):
    got, err = run_gentld(a, rows, work)
    if err:
        return err
    if len(got) != len(rows):
        return "emitted %d rows for %d CSV rows" % (len(got), len(rows))
    # the second generator (list the test-suite iterates over): one "d.d" line per row, same order
    outp = os.path.join(work, "list.txt")
    p2 = subprocess.run(["perl", "-I" + SHIM, os.path.join(a.repo, "util", "gen_utf8_pass_test.pl"), outp, os.path.join(work, "in.csv")], stdout=subprocess.PIPE, stderr=subprocess.STDOUT, text=True)
    if p2.returncode != 0:
        return "gen_utf8_pass_test.pl exit %d: %s" % (p2.returncode, p2.stdout[-300:])
    lines = [l for l in open(outp, encoding="utf-8").read().split("\n") if l != ""]
    want = ["%s.%s" % (d, d) for d, t, m in rows]
    if lines != want:
        k = next((i for i in range(min(len(lines), len(want))) if lines[i] != want[i]), min(len(lines), len(want)))
        return "gen_utf8_pass_test.pl: line %d is %r, expected %r (%d lines for %d rows)" % (k + 1, lines[k] if k < len(lines) else None, want[k] if k < len(want) else None, len(lines), len(want))
    for i, ((d, t, m), (gd, gl, gc)) in enumerate(zip(rows, got)):
        if gd != d:
            return "row %d: domain %r emitted as %r (order or content changed)" % (i, d, gd)
        if gl != len(d) + 1:
            return "row %d (%r): length field %d, expected strlen+1 = %d" % (i, d, gl, len(d) + 1)
        if gc != rule_class(t, m):
            return "row %d (%r, type %r, manager %r): class %s, documented rule gives %s" % (i, d, t, m, gc, rule_class(t, m))
    return None


def stage_gencsv(a, R):
    from hypothesis import given, settings, seed, strategies as st, HealthCheck, Phase
    label = st.text(alphabet="abcdefghijklmnopqrstuvwxyz0123456789", min_size=1, max_size=12).map(lambda s: s if not s[0].isdigit() else "x" + s)
    domain = st.one_of(label, label.map(lambda s: "xn--" + s))
    filler = st.text(alphabet=st.sampled_from(list("abcXYZ ,.\"'()-&/") + ["\n", "é", "日"]), min_size=0, max_size=20)
    manager = st.one_of(
        filler.map(lambda s: "Company " + s),
        filler.map(lambda s: "Not assigned" + s), filler.map(lambda s: "not ASSIGNED" + s), filler.map(lambda s: "NOT ASSIGNED " + s),
        filler.map(lambda s: "Retired" + s), filler.map(lambda s: "retired " + s), filler.map(lambda s: "RETIRED, was " + s),
        filler.map(lambda s: "Formerly Not assigned " + s), filler.map(lambda s: "The Retired Co " + s), filler.map(lambda s: " Retired" + s), st.just(""))
    row = st.tuples(domain, st.sampled_from(sorted(TYPES)), manager)
    rows_st = st.lists(row, min_size=1, max_size=25, unique_by=lambda r: r[0])
    work = tempfile.mkdtemp(prefix="c11gen.", dir=a.out)
    state = dict(last=None)

    @seed(a.seed)
    @settings(max_examples=a.budget, database=None, deadline=None, derandomize=False, report_multiple_bugs=False,
              suppress_health_check=list(HealthCheck), phases=[Phase.generate, Phase.shrink])
    @given(rows_st)
    def prop(rows):
        R.d["evaluations"] += 1
        ov = sum(1 for r in rows if r[2].lower().startswith(("not assigned", "retired")))
        if ov:
            R.hashes.add(h64(repr(rows)))
            R.count("csv-with-override-rows")
        if any(r[2].lower().startswith("retired") for r in rows):
            R.count("csv-with-retired-row")
        if any(('"' in r[2] or "," in r[2] or "\n" in r[2]) for r in rows):
            R.count("csv-with-quoted-specials")
        R.sample("generated csv", json.dumps(rows[:3], ensure_ascii=False), 3)
        err = check_csv(a, rows, work)
        if err:
            state["last"] = (rows, err)
            raise AssertionError(err)

    try:
        prop()
    except AssertionError:
        rows, err = state["last"]
        R.fail("generator-mistranslates", "py:gencsv:" + json.dumps(rows), err)
    finally:
        shutil.rmtree(work, ignore_errors=True)


def main():
    ap = argparse.ArgumentParser()
    ap.add_argument("--stage"); ap.add_argument("--worker", default="0/1"); ap.add_argument("--seed", type=int, default=1)
    ap.add_argument("--budget", type=int, default=10); ap.add_argument("--out", default="."); ap.add_argument("--data"); ap.add_argument("--repo")
    ap.add_argument("--replay"); ap.add_argument("--thorough", action="store_true"); ap.add_argument("--known")
    a = ap.parse_args()
    a.worker = int(a.worker.split("/")[0])
    if not a.repo:
        a.repo = os.path.dirname(a.data.rstrip("/"))
    if a.replay:
        a.stage = "replay"
        R = Report(a)
        if a.replay.startswith("py:regen"):
            stage_regen(a, R)
        else:
            rows = [tuple(r) for r in json.loads(a.replay[len("py:gencsv:"):])]
            work = tempfile.mkdtemp(prefix="c11rep.", dir=a.out)
            err = check_csv(a, rows, work)
            shutil.rmtree(work, ignore_errors=True)
            if err:
                R.fail("generator-mistranslates", a.replay, err)
        if R.d["failures"]:
            print("REPLAY-FAIL", R.d["failures"][0]["explain"])
            return 3
        print("REPLAY-PASS")
        return 0
    R = Report(a)
    if a.stage == "regen":
        stage_regen(a, R)
    elif a.stage == "gencsv":
        stage_gencsv(a, R)
    else:
        return 2
    return R.write()


if __name__ == "__main__":
    sys.exit(main())
