// fuzz_api.cpp — C06: coverage-guided fuzzing of every public entry point (libFuzzer,
// ASan + UBSan + LSan).  Input layout: address bytes from the front (cut at the first NUL,
// so length == strlen), configuration from the last byte.  The address is copied into an
// exact-size heap block.  Oracles inside the target, besides the sanitizers: outcomes must
// not depend on the pre-fill of the raw eav_t block (uninitialised-field clause), and
// ret == 1 <=> errcode == 0 with a non-NULL message.
#include "../harness/common.hpp"
#include "../harness/exercise.hpp"
#include <unistd.h>

using namespace vf;
extern "C" const vapi dfuzz_api;
static const vapi *A = &dfuzz_api;
static ExObjs OB[2];
static Run R;
static Bytes g_cur;

static void flush_report() { R.write(); }
static void on_death_fuzz() { flush_report(); }
extern "C" void __sanitizer_set_death_callback(void (*)(void));

extern "C" int LLVMFuzzerInitialize(int *, char ***) {
    const char *out = getenv("VF_OUT"); R.a.out = out ? out : "."; R.a.stage = getenv("VF_STAGE") ? getenv("VF_STAGE") : "fuzz"; R.a.worker = getenv("VF_WORKER") ? atoi(getenv("VF_WORKER")) : 0;
    if (!make_objs(A, &OB[0], 0x00) || !make_objs(A, &OB[1], 0xE5)) abort();
    atexit(flush_report);
    __sanitizer_set_death_callback(on_death_fuzz);
    return 0;
}

static void violation(const char *cls, const std::string &why) {
    R.fail(Failure{cls, "fuzz=x" + hexs(g_cur), why});
    flush_report();
    fprintf(stderr, "ORACLE-FAILURE %s: %s\n", cls, why.c_str());
    __builtin_trap();
}

extern "C" int LLVMFuzzerTestOneInput(const uint8_t *data, size_t size) {
    g_cur.assign((const char *) data, size);
    uint8_t cfg = size ? data[size - 1] : 0; if (size) size--;
    size_t n = 0; while (n < size && data[n]) n++;
    ExactBuf b(Bytes((const char *) data, n));
    int which = (cfg & 3) == 0 ? 15 : (cfg & 3) == 1 ? 9 : (cfg & 3) == 2 ? 2 : 4;
    uint64_t d0 = exercise_all(A, &OB[0], b.p, n, which), d1 = exercise_all(A, &OB[1], b.p, n, which);
    R.eval(2);
    const char *at = (const char *) memrchr(b.p, '@', n);
    if (n >= 1024 || (at && at > b.p && at + 1 < b.p + n)) R.nontrivial(hashb(b.p, n));
    R.count(at ? "has-@" : "no-@"); R.sample("fuzz input", show(Bytes(b.p, n > 120 ? 120 : n)), 6);
    if (d0 != d1) violation("depends-on-uninitialised-eav_t", "outcomes differ with the raw eav_t block pre-filled 0x00 vs 0xE5 before eav_init");
    v_outcome o;
    for (int m = 0; m < 4; m++) { A->obj_is_email(OB[0].o[m][1]->p, b.p, n, &o);
        if ((o.ret == 1) != (o.errcode == 0) || o.errstr_null) violation("ret-vs-errcode", "mode index " + std::to_string(m) + ": " + outcome_str(o)); }
    return 0;
}
