// C12 — modes differ only where the RFCs differ (cross-mode agreement and inclusion).
// Pure differential between the four modes of the same build:
//  (i)  pure-ASCII address whose local part has neither DQUOTE nor backslash: same decision
//       and error code in all four modes, except that 6531 may answer with the IDN error;
//  (ii) accepted in 5321 => accepted in 822;
//  (iii) for a fixed domain and a local part valid in all three ASCII modes: identical
//       result code, class and flags in 822/5321/5322.
#include "../harness/rc_glue.hpp"
#include "../harness/addrcore.hpp"

using namespace vf;
extern "C" const vapi dflt_api;
#ifndef VF_FUZZ
extern "C" const vapi extra_api;
#endif
static Core *K_, *KX_ = nullptr;   // KX_: the EAV_EXTRA build, where the same relations must hold
static std::string g_case;

static Case mkcase(const Bytes &a, int mask) { Case c; c.b("addr", a).i("mask", mask); return c; }
static bool same_result(const v_outcome &x, const v_outcome &y) { return x.rc == y.rc && x.is_ipv4 == y.is_ipv4 && x.is_ipv6 == y.is_ipv6 && x.is_domain == y.is_domain; }

static std::optional<Failure> check_core(Run &R, Core &K, const Bytes &a, int mask, const char *build);
static std::optional<Failure> check_one(Run &R, const Bytes &a, int mask) {
    if (auto f = check_core(R, *K_, a, mask, "")) return f;
    if (KX_) return check_core(R, *KX_, a, mask, "[EAV_EXTRA build] ");
    return std::nullopt;
}
static std::optional<Failure> check_core(Run &R, Core &K, const Bytes &a, int mask, const char *build) {
    const Consts &C = K.C;
    g_case = mkcase(a, mask).str();
    Facts f = facts(K.T, C, a);
    Outs o = K.run(a, mask);
    R.eval(16);
    bool filtered = f.ascii && f.L.find('"') == Bytes::npos && f.L.find('\\') == Bytes::npos;
    bool nontriv = f.has_at && !f.D.empty();
    if (nontriv) R.nontrivial(hashs(a));
    if (filtered) R.count("filtered(pure-ascii,no-quote,no-backslash)"); else R.count("unfiltered");
    for (int t = 0; t < 2; t++) {
        std::string where = std::string(build) + "tld_check=" + std::to_string(t) + " address '" + show(a) + "'";
        if (filtered) {
            const v_outcome &b = o.obj[0][t];
            for (int m = 1; m < 4; m++) {
                const v_outcome &x = o.obj[m][t];
                if (x.ret == b.ret && x.errcode == b.errcode) continue;
                if (m == 3 && x.ret == 0 && x.errcode == C.E_IDN) {
                    // allowed only "for the domain": the ASCII modes accepted or reported a domain/TLD code
                    vf::K k(K.A); int e = b.errcode;
                    bool domain_side = b.ret == 1 || (e >= k("EEAV_DOMAIN_EMPTY") && e <= k("EEAV_DOMAIN_NOT_FQDN")) || e >= k("EEAV_TLD_INVALID");
                    if (domain_side && !f.bracket) { R.count("6531-idn-error-exception"); continue; }
                }
                return Failure{"cross-mode-disagreement", g_case, where + ": mode 822 -> " + outcome_str(b) + " but mode " + ref::MODE_NAME[m] + " -> " + outcome_str(x)};
            }
        }
        if (o.obj[1][t].ret == 1 && o.obj[0][t].ret != 1)
            return Failure{"5321-not-included-in-822", g_case, where + ": accepted in mode 5321 (" + outcome_str(o.obj[1][t]) + ") but rejected in mode 822 (" + outcome_str(o.obj[0][t]) + ")"};
        if (f.has_at && f.lref[0] && f.lref[1] && f.lref[2] && f.L.size() <= 64) {
            R.count("local-valid-in-all-ascii-modes");
            for (int m = 1; m < 3; m++)
                if (!same_result(o.obj[0][t], o.obj[m][t]) || !same_result(o.dir[0][t], o.dir[m][t]) || o.obj[0][t].ret != o.obj[m][t].ret || o.obj[0][t].errcode != o.obj[m][t].errcode)
                    return Failure{"domain-verdict-differs", g_case, where + ": same domain, local part valid in all ASCII modes, but mode 822 -> " + outcome_str(o.obj[0][t]) + " and mode " + ref::MODE_NAME[m] + " -> " + outcome_str(o.obj[m][t])};
        }
    }
    return std::nullopt;
}
static bool run_one(Run &R, const Bytes &a, int mask) { auto f = check_one(R, a, mask); return !(f && !R.fail(*f)); }

static void stage_bounded(Run &R) {
    static const char AL[] = {'a', '1', '.', '-', '@', '[', ']', ':', ' ', '(', 0x01, '_'};
    const int K = sizeof AL;
    int maxlen = R.a.thorough ? 7 : 5;
    uint64_t total = 0, idx = 0; int dm = K_->default_mask();
    std::vector<int> d(maxlen, 0);
    for (int len = 1; len <= maxlen; len++) {
        uint64_t cnt = 1; for (int i = 0; i < len; i++) cnt *= K;
        total += cnt; std::fill(d.begin(), d.end(), 0);
        for (uint64_t n = 0; n < cnt; n++) {
            if ((int) ((idx++ / 8) % R.a.nworkers) == R.a.worker) {
                Bytes b; for (int i = 0; i < len; i++) b += AL[d[i]];
                if (!run_one(R, b, dm)) return;
            }
            for (int i = len - 1; i >= 0; i--) { if (++d[i] < K) break; d[i] = 0; }
        }
    }
    R.space("C12 all strings of length 1.." + std::to_string(maxlen) + " over the 12-class pure-ASCII alphabet {a 1 . - @ [ ] : SP ( 0x01 _} x 4 modes x tld_check {0,1}", total);
}

// structured pure-ASCII addresses: every atext / special / control byte in the local part x domain shapes
static void stage_bytes(Run &R) {
    uint64_t idx = 0, total = 0; int dm = K_->default_mask();
    static const char *DOMS[] = {"ok.com", "b.example.org", "x", "x.zzunlisted", "[1.2.3.4]", "[IPv6:::1]", "a-.com", "1.2", "-a.com", "a..com", "localhost", "x.abarth", "xn--p1ai.com", "ab--c.com", "xn--zz.com", "a_b.com", "example.com.", "host.localhost.", "www.test.", "iana.org.", "EXAMPLE.ORG.", "x.onion.", "[1.2.3]", "A.RU."};
    for (int x = 1; x < 128; x++) { if (x == '"' || x == '\\') continue; for (const char *d : DOMS) for (int pos = 0; pos < 3; pos++) {
        total++; if ((int) (idx++ % R.a.nworkers) != R.a.worker) continue;
        Bytes l = pos == 0 ? Bytes(1, (char) x) + "bc" : pos == 1 ? "a" + Bytes(1, (char) x) + "c" : "ab" + Bytes(1, (char) x);
        if (!run_one(R, l + "@" + d, dm)) return;
    } }
    R.space("C12 every ASCII byte except DQUOTE/backslash at first/middle/last position of the local part x 24 domain shapes (incl. root-dotted reserved names), default and EAV_EXTRA build", total);
}

// local parts of 56..72 octets in the word shapes whose length accounting could differ per mode
static void stage_lengths(Run &R) {
    uint64_t idx = 0, total = 0; int dm = K_->default_mask();
    for (size_t n = 56; n <= 72; n++) {
        std::vector<Bytes> ls = {Bytes(n, 'a'), "\"" + Bytes(n - 2, 'q') + "\"", "\"" + Bytes(n - 5, 'q') + "\".\"w\"", "a.\"" + Bytes(n - 4, 'q') + "\"", "\"" + Bytes(n - 4, 'q') + "\".b", "\"" + Bytes(n - 4, 'q') + "\\ \""};
        { Bytes l; while (l.size() < n) l += "ab."; l.resize(n); if (l.back() == '.') l.back() = 'c'; ls.push_back(l); }
        for (const Bytes &l : ls) for (const char *d : {"ok.com", "[1.2.3.4]", "x", "sub.example.org", "b.zzunlisted"}) { total++; if ((int) (idx++ % R.a.nworkers) != R.a.worker) continue; if (!run_one(R, l + "@" + d, dm)) return; }
    }
    R.space("C12 local parts of 56..72 octets in 7 word shapes x 5 domains", total);
}

// the same relations observed on ONE object that is switched through the modes (every order of two modes, with and
// without a failed eav_setup in between): the outcome in mode m must be what a dedicated mode-m object gives
static std::optional<Failure> check_switched(Run &R, const Bytes &a, int m1, int m2, bool failed_between) {
    Core &K = *K_; Case cs; cs.b("addr", a).i("mask", K.default_mask()).i("m1", m1).i("m2", m2).i("fb", failed_between); g_case = cs.str();
    Obj o(K.A); if (o.configure(m1, 1) != 0) return Failure{"setup-failed", g_case, ""};
    v_outcome x1 = o.is_email(a);
    if (failed_between) { K.A->obj_set_rfc_raw(o.p, 1234); (void) K.A->obj_setup(o.p); }
    K.A->obj_set_mode(o.p, m2); if (K.A->obj_setup(o.p) != 0) return Failure{"setup-failed", g_case, ""};
    v_outcome x2 = o.is_email(a); R.eval(2);
    K.A->obj_set_allow(K.o[m2][1]->p, K.default_mask()); v_outcome w = K.o[m2][1]->is_email(a); R.eval();
    R.nontrivial(hashs(g_case));
    if (x2.ret != w.ret || x2.errcode != w.errcode || x2.rc != w.rc || strcmp(x2.errstr, w.errstr) != 0)
        return Failure{"mode-after-switch", g_case, "object switched from mode " + std::string(ref::MODE_NAME[m1]) + (failed_between ? " (then a failed eav_setup)" : "") + " to mode " + ref::MODE_NAME[m2] + ": '" + show(a) + "' -> " + outcome_str(x2) + " but a dedicated mode-" + ref::MODE_NAME[m2] + " object -> " + outcome_str(w)};
    (void) x1;
    return std::nullopt;
}
static void stage_switched(Run &R) {
    std::vector<Bytes> as = {"user@example.com", "\xD0\xB8\xD0\xB2\xD0\xB0\xD0\xBD@\xD0\xBF\xD0\xBE\xD1\x87\xD1\x82\xD0\xB0.\xD1\x80\xD1\x84", "user@xn--a.com", "\"a\tb\"@x.com", "\"a b\"@x.com", "a@\xE2\x99\xA5.de", "\xD0\x96@x.com", "a@b", "a@[1.2.3.4]", "\"a\\\x01\"@x.com", "a#b@x.com"};
    uint64_t idx = 0, total = 0;
    for (const Bytes &a : as) for (int m1 = 0; m1 < 4; m1++) for (int m2 = 0; m2 < 4; m2++) for (int fb = 0; fb < 2; fb++) {
        total++; if ((int) (idx++ % R.a.nworkers) != R.a.worker) continue;
        auto f = check_switched(R, a, m1, m2, fb != 0); if (f && !R.fail(*f)) return;
    }
    R.space("C12 11 mode-discriminating addresses x every ordered pair of modes on one reused object x {no, one} failed eav_setup in between", total);
}

static void stage_random(Run &R) {
    rc_run(R, "C12 cross-mode relations on generated addresses", 4.0, [&](Src &s) -> std::optional<Failure> {
        int mask = s.chance(1, 2) ? K_->default_mask() : (int) s.pick(2048);
        Bytes a = gen_address(s, K_->T);
        if (s.chance(1, 2)) { // steer into the filtered population: make it pure ASCII without quote/backslash in the local part
            size_t at = a.rfind('@');
            for (size_t i = 0; i < a.size(); i++) { unsigned char c = a[i]; if (c >= 0x80) a[i] = char('a' + c % 26); else if ((at == Bytes::npos || i < at) && (c == '"' || c == '\\')) a[i] = 'q'; }
        }
        R.sample("random", show(a), 8);
        return check_one(R, a, mask);
    });
}

static void stage_corpus(Run &R) {
    int dm = K_->default_mask(); uint64_t i = 0;
    for (const Bytes &l : corpus_lines(R.a.datadir)) { if ((int) (i++ % R.a.nworkers) != R.a.worker) continue; if (!run_one(R, l, dm)) return; R.count("corpus-lines"); }
}

#ifndef VF_FUZZ
int main(int argc, char **argv) {
    return std_main(argc, argv, "C12", {{"bounded", stage_bounded}, {"bytes", stage_bytes}, {"random", stage_random}, {"corpus", stage_corpus}, {"lengths", stage_lengths}, {"switched", stage_switched}},
        [](Run &R, const Case &c) -> std::optional<Failure> { if (c.has("m1")) return check_switched(R, c.getb("addr"), (int) c.geti("m1"), (int) c.geti("m2"), c.geti("fb") != 0); return check_one(R, c.getb("addr"), (int) c.geti("mask")); }, [] { return g_case; },
        [](Run &R) { K_ = new Core(&dflt_api); KX_ = new Core(&extra_api); return K_->init(R.a.datadir) && KX_->init(R.a.datadir); }, [] { delete K_; delete KX_; });
}
#else
VF_FUZZ_TARGET("C12", [](Run &R) { K_ = new Core(&dflt_api); return K_->init(R.a.datadir); },
    [](Run &R, const uint8_t *d, size_t n) -> std::optional<Failure> {
        if (n < 2) return std::nullopt;
        int mask = (d[n - 1] | (d[n - 2] << 8)) % 2048; if (d[n - 1] & 0x80) mask = K_->default_mask();
        Bytes a = fuzz_bytes(d, n - 2); R.sample("fuzz", show(a.substr(0, 80)), 4);
        return check_one(R, a, mask); })
#endif
