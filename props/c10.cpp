// C10 — IDN: U-label and A-label spellings of a domain are treated identically.
// Metamorphic oracle with the IDN library as trusted base: A = idn2_to_ascii_8z(U).
//   conversion fails  -> mode 6531 rejects U;
//   conversion works  -> outcome_6531(U) == outcome_6531(A) (decision, rc/class, flags), and each
//                        ASCII mode gives A the same decision and class;
//   all-ASCII domain  -> accepted in 6531 => accepted in the ASCII modes with the same class;
//                        rejected in 6531 but accepted by them => the error is the IDN error.
#include "../harness/rc_glue.hpp"
#include "../harness/addrcore.hpp"

using namespace vf;
extern "C" const vapi dflt_api;
static Core *K_;
static std::string g_case;
static Case mkcase(const Bytes &d) { Case c; c.b("domain", d); return c; }

static bool same(const v_outcome &x, const v_outcome &y, bool flags) {
    return x.ret == y.ret && x.errcode == y.errcode && x.rc == y.rc && (!flags || (x.is_domain == y.is_domain && x.is_ipv4 == y.is_ipv4 && x.is_ipv6 == y.is_ipv6));
}

static std::optional<Failure> check_one(Run &R, const Bytes &u) {
    Core &K = *K_; const Consts &C = K.C;
    g_case = mkcase(u).str();
    if (u.empty() || u[0] == '[' || u.find('@') != Bytes::npos) return std::nullopt;
    ToAscii t = to_ascii(u);
    bool ascii = ref::pure_ascii(u);
    Outs ou = K.run("x@" + u, K.default_mask()); R.eval(16);
    if (t.rc != IDN2_OK) {
        R.count(ref::utf8_ok(u) ? "idna-invalid" : "malformed-utf8"); R.nontrivial(hashs(u));
        R.sample("refused by IDNA2008", show(u) + " (" + idn2_strerror_name(t.rc) + ")", 4);
        for (int tl = 0; tl < 2; tl++) {
            const v_outcome &x = ou.obj[3][tl];
            if (x.ret != 0) return Failure{"accepts-idna-invalid", g_case, "mode 6531 tld_check=" + std::to_string(tl) + " accepted 'x@" + show(u) + "' although IDNA2008 conversion fails (" + idn2_strerror_name(t.rc) + "): " + outcome_str(x)};
            if (x.errcode != C.E_IDN) R.count("idna-invalid-rejected-with-other-code");
        }
        return std::nullopt;
    }
    const Bytes &a = t.out;
    // an A-form that begins with '[' (ignorable code points in front of a bracket) is no host name in A-label spelling but the
    // syntax of an address literal, which the library dispatches differently: outside "domains made of IDNA2008-valid labels"
    if (!a.empty() && a[0] == '[') { R.count("a-form-looks-like-a-literal(not judged)"); return std::nullopt; }
    // ... and an A-form that contains '@' (U+FF20 FULLWIDTH COMMERCIAL AT and the like map to it) changes where the address is split
    if (a.find('@') != Bytes::npos) { R.count("a-form-contains-@(not judged)"); return std::nullopt; }
    bool converted = a != u;
    if (converted) { R.nontrivial(hashs(u)); R.count(ascii ? "ascii-mapped(case)" : "converted"); if (!ascii) R.sample("converted", show(u) + " -> " + a, 4); }
    else R.count("unchanged");
    Outs oa = converted ? K.run("x@" + a, K.default_mask()) : ou; if (converted) R.eval(16);
    for (int tl = 0; tl < 2; tl++) {
        std::string w = "tld_check=" + std::to_string(tl) + " ";
        if (converted && !same(ou.obj[3][tl], oa.obj[3][tl], true))
            return Failure{"ulabel-vs-alabel", g_case, w + "mode 6531: U-label spelling '" + show(u) + "' -> " + outcome_str(ou.obj[3][tl]) + " but A-label spelling '" + a + "' -> " + outcome_str(oa.obj[3][tl])};
        // ASCII modes on the A-label spelling: same decision and class as mode 6531
        const v_outcome &six = oa.obj[3][tl];
        for (int m = 0; m < 3; m++) {
            const v_outcome &x = oa.obj[m][tl];
            if (six.ret == 1 || !(six.errcode == C.E_IDN)) {
                if (x.ret != six.ret || x.rc != six.rc || x.errcode != six.errcode)
                    return Failure{"ascii-mode-vs-6531-on-alabel", g_case, w + "A-label spelling '" + a + "': mode 6531 -> " + outcome_str(six) + ", mode " + ref::MODE_NAME[m] + " -> " + outcome_str(x)};
            } else {
                // 6531 refuses the A-label spelling itself with an IDN error: only legitimate if the converter really refuses it
                ToAscii t2 = to_ascii(a);
                if (t2.rc == IDN2_OK) return Failure{"spurious-idn-error", g_case, w + "mode 6531 reports an IDN error for '" + a + "' which the IDN library converts fine"};
                R.count("alabel-not-stable-under-conversion");
            }
        }
        if (ascii) {
            const v_outcome &s6 = ou.obj[3][tl];
            for (int m = 0; m < 3; m++) {
                const v_outcome &x = ou.obj[m][tl];
                if (s6.ret == 1 && (x.ret != 1 || x.rc != s6.rc)) return Failure{"6531-accepts-more-than-ascii", g_case, w + "all-ASCII domain '" + show(u) + "': mode 6531 -> " + outcome_str(s6) + ", mode " + ref::MODE_NAME[m] + " -> " + outcome_str(x)};
                if (s6.ret == 0 && x.ret == 1 && s6.errcode != C.E_IDN) return Failure{"6531-rejects-ascii-domain-without-idn-error", g_case, w + "all-ASCII domain '" + show(u) + "': mode " + ref::MODE_NAME[m] + " accepts, mode 6531 -> " + outcome_str(s6)};
            }
        }
    }
    return std::nullopt;
}
static bool run_one(Run &R, const Bytes &d) { auto f = check_one(R, d); return !(f && !R.fail(*f)); }

static void stage_tlds(Run &R) {
    Core &K = *K_; uint64_t idx = 0, total = 0;
    auto go = [&](const Bytes &b) -> bool { total++; if ((int) (idx++ % R.a.nworkers) != R.a.worker) return true; return run_one(R, b); };
    for (size_t i = 0; i < K.T.idn_u.size(); i++) {
        const Bytes &u = K.T.idn_u[i], &a = K.T.idn_a[i];
        Bytes A = a; for (auto &c : A) c = (char) toupper((unsigned char) c);
        for (const Bytes &d : {"x." + u, u + "." + u, "mail.sub." + u, u, a + "." + u, u + "." + a, "\xD0\xBF\xD0\xBE\xD1\x87\xD1\x82\xD0\xB0." + u, "X." + u, u + ".com", "x." + a, "x." + A, u + "." + A, A + "." + u, "\xD0\xBF\xD0\xBE\xD1\x87\xD1\x82\xD0\xB0." + A}) if (!go(d)) return;
    }
    R.space("C10 every IDN TLD row (" + std::to_string(K.T.idn_u.size()) + ") in U- and A-form x 10 placements", total);
}

// systematic labels per script: single code points, and growing labels until the A-label passes 63
static void stage_scripts(Run &R) {
    uint64_t idx = 0, total = 0;
    auto go = [&](const Bytes &b) -> bool { total++; if ((int) (idx++ % R.a.nworkers) != R.a.worker) return true; return run_one(R, b); };
    for (auto &sc : gen::SCRIPTS) {
        uint32_t step = (sc.hi - sc.lo) > 300 ? 37 : 1;
        for (uint32_t c = sc.lo; c <= sc.hi; c += step) {
            Bytes x = ref::utf8_encode(c);
            for (const Bytes &d : {x + ".com", "a" + x + ".com", x + "1.\xD1\x80\xD1\x84", x + x + "." + x + x, "a." + x}) if (!go(d)) return;
        }
        for (uint32_t n = 1; n <= 64; n++) { Bytes l; for (uint32_t i = 0; i < n; i++) l += ref::utf8_encode(sc.lo + (i * 7) % (sc.hi - sc.lo + 1)); if (!go(l + ".com")) return; if (!go("b." + l)) return; }
    }
    // long multi-label IDN domains: the UTF-8 spelling crosses 253/255 octets long before (or after) the A-label form does
    for (auto &sc : gen::SCRIPTS) for (uint32_t nl = 2; nl <= 6; nl++) for (uint32_t n : {10u, 20u, 30u, 40u, 42u, 45u, 50u, 56u, 63u})
        for (const char *tld : {"com", "\xD1\x80\xD1\x84", "\xE4\xB8\xAD\xE5\x9B\xBD"}) {
            Bytes d; for (uint32_t k = 0; k < nl; k++) { for (uint32_t i = 0; i < n; i++) d += ref::utf8_encode(sc.lo + (i * 5 + k) % (sc.hi - sc.lo + 1)); d += '.'; }
            d += tld;
            if (d.size() < 150 || d.size() > 1200) continue;
            if (!go(d)) return;
        }
    for (const Bytes &d : gen::mapped_names()) if (!go(d)) return;
    for (const Bytes &d : gen::idn_mapped_shapes("iana", "org")) if (!go(d)) return;
    for (const Bytes &d : gen::idn_mapped_shapes("\xD0\xBF\xD0\xBE\xD1\x87\xD1\x82\xD0\xB0", "\xD1\x80\xD1\x84")) if (!go(d)) return;
    for (const Bytes &d : gen::idn_mapped_shapes("mail", "localhost")) if (!go(d)) return;
    // supplementary-plane labels: 4 UTF-8 octets per character, near-maximal labels (U-form > 765 octets, A-form <= 253)
    for (uint32_t cp : {0x20000u, 0x2A700u, 0x1F600u, 0x10348u}) for (uint32_t n : {20u, 40u, 50u, 55u, 56u, 57u}) for (uint32_t nl : {1u, 2u, 3u, 4u}) {
        Bytes d; for (uint32_t k = 0; k < nl; k++) { for (uint32_t i = 0; i < n; i++) d += ref::utf8_encode(cp); d += '.'; } d += "com"; if (!go(d)) return; }
    static const char *BAD[] = {"\xE2\x99\xA5.de", "I\xE2\x99\xA5NY.de", "\xE2\x98\x95.de", "a\xE2\x80\x8D" "b.com", "-a.com", "a-.com", "ab--cd.com", "xn--.com", "xn--a.com", "xn--zzzzzzzz.com", "xn--p1ai.xn--p1ai", "XN--P1AI.com",
                                "a..com", ".com", "a.com.", "\x80.com", "\xC3.com", "a\xFF.com", "\xEF\xBC\xA1.com", "\xC3\x9F.de", "\xCF\x82.gr", "a\xCC\x81.com", "\xD7\x90" "1.com", "1\xD7\x90.com", "\xD8\xA7" "a.com", "a_b.com", "a b.com", "a\x01.com"};
    for (const char *b : BAD) if (!go(b)) return;
    R.space("C10 single code points of 11 script ranges x 5 placements; labels of 1-64 characters per script (A-label crossing 63); 30 invalid / mapped forms", total);
}

static void stage_random(Run &R) {
    rc_run(R, "C10 U-label / A-label agreement on generated domains", 3.0, [&](Src &s) -> std::optional<Failure> {
        uint32_t k = s.pick(5);
        Bytes d = k < 3 ? gen::idn_host(s, &K_->T.idn_u, &K_->T.alist) : k == 3 ? gen::host_any(s, &K_->T.alist) : gen::host_mutated(s, &K_->T.alist);
        for (auto &c : d) if (c == 0) c = 1;
        return check_one(R, d);
    });
}
static void stage_corpus(Run &R) {
    uint64_t i = 0;
    for (const Bytes &l : corpus_lines(R.a.datadir)) { size_t at = l.rfind('@'); if ((int) (i++ % R.a.nworkers) != R.a.worker) continue; if (!run_one(R, at == Bytes::npos ? l : l.substr(at + 1))) return; R.count("corpus-lines"); }
    std::ifstream f(R.a.datadir + "/tld-domains.txt"); std::string line; uint64_t n = 0;
    while (std::getline(f, line)) { if (line.empty()) continue; if ((int) (n++ % R.a.nworkers) != R.a.worker) continue; if (!run_one(R, line)) return; }
}

#ifndef VF_FUZZ
int main(int argc, char **argv) {
    return std_main(argc, argv, "C10", {{"tlds", stage_tlds}, {"scripts", stage_scripts}, {"random", stage_random}, {"corpus", stage_corpus}},
        [](Run &R, const Case &c) { return check_one(R, c.getb("domain")); }, [] { return g_case; },
        [](Run &R) { K_ = new Core(&dflt_api); return K_->init(R.a.datadir); }, [] { delete K_; });
}
#else
VF_FUZZ_TARGET("C10", [](Run &R) { K_ = new Core(&dflt_api); return K_->init(R.a.datadir); },
    [](Run &R, const uint8_t *d, size_t n) -> std::optional<Failure> { Bytes x = fuzz_bytes(d, n); if (x.empty()) return std::nullopt; R.sample("fuzz", show(x.substr(0, 80)), 4); return check_one(R, x); })
#endif
