// C01 — address decision: split at the last '@', local part 1-64 octets, both halves valid;
// the high-level call equals the composition of the library's own per-part validators.
// Oracles: (1) structural model: reference split + reference per-part recognisers
// (TLD off); (2) composition differential: is_<mode>_local / is_ascii_domain /
// is_special_domain / is_tld / is_utf8_domain called on L and D, then the policy formula.
#include "../harness/rc_glue.hpp"
#include "../harness/addrcore.hpp"
#include "../harness/litshapes.hpp"

using namespace vf;
extern "C" const vapi dflt_api;
static Core *K_;
static std::string g_case;

static Case mkcase(const Bytes &a, int mask) { Case c; c.b("addr", a).i("mask", mask); return c; }

static std::optional<Failure> check_one(Run &R, const Bytes &a, int mask) {
    Core &K = *K_; const Consts &C = K.C; vf::K c(K.A);
    g_case = mkcase(a, mask).str();
    Facts f = facts(K.T, C, a);
    Outs o = K.run(a, mask);
    R.eval(16);
    bool nontriv = f.has_at && !f.L.empty() && !f.D.empty();
    if (nontriv) R.nontrivial(hashs(a));
    bool discr = !(f.lref[0] == f.lref[1] && f.lref[1] == f.lref[2] && f.lref[2] == f.lref[3]);
    if (discr) R.count("mode-discriminating-local-part");
    R.count(nontriv ? "has-both-halves" : "degenerate");
    size_t nat = std::count(a.begin(), a.end(), '@'); if (nat >= 2) R.count("two-or-more-@");
    int ipa = c("EEAV_IPADDR_INVALID"), ipb = c("EEAV_IPADDR_BRACKET_UNPAIR");
    for (int m = 0; m < 4; m++) { std::string w = veteran_differs(o, m); R.eval(); if (!w.empty()) return Failure{"mode-after-history", g_case, "address '" + show(a) + "': " + w + " (the mode confirmed by the last successful eav_setup must be the one applied)"}; }
    for (int m = 0; m < 4; m++) for (int t = 0; t < 2; t++) {
        const v_outcome &ob = o.obj[m][t], &di = o.dir[m][t];
        std::string where = std::string("mode ") + ref::MODE_NAME[m] + " tld_check=" + std::to_string(t) + " address '" + show(a) + "'";
        // ---- (2) composition differential
        bool free_lit, rej_lit; int want = compose(K, f, m, t, &free_lit, &rej_lit); R.eval(3);
        auto lit_ok = [&](int rc) { return free_lit ? (rc == 0 || rc == -ipa || rc == -ipb) : rej_lit ? (rc == -ipa || rc == -ipb) : rc == want; };
        if (!lit_ok(di.rc))
            return Failure{"direct-vs-composition", g_case, where + ": is_" + ref::MODE_NAME[m] + "_email rc=" + std::to_string(di.rc) + " but composing the per-part validators gives " + std::to_string(want)};
        if (ob.rc != di.rc || ob.has_result != 1)
            return Failure{"highlevel-vs-direct", g_case, where + ": eav_is_email result rc=" + std::to_string(ob.rc) + ", direct call rc=" + std::to_string(di.rc) + " (mode wiring)"};
        int wret, werr; policy(C, di.rc, o.mask[t], &wret, &werr);
        if (ob.ret != wret || ob.errcode != werr)
            return Failure{"highlevel-vs-composition", g_case, where + ": expected ret=" + std::to_string(wret) + " errcode=" + std::to_string(werr) + " from rc=" + std::to_string(di.rc) + " and allow_tld, got " + outcome_str(ob)};
        // ---- (1) structural model, TLD off
        if (t == 0) {
            bool lenok = f.has_at && f.L.size() >= 1 && f.L.size() <= 64 && !f.D.empty();
            bool acc = ob.ret == 1;
            if (!lenok || !f.lref[m]) {
                if (acc) return Failure{!lenok ? "accepts-bad-split-or-length" : "accepts-invalid-local", g_case, where + ": accepted although " + (!f.has_at ? "there is no '@'" : f.L.empty() ? "the local part is empty" : f.D.empty() ? "the domain is empty" : f.L.size() > 64 ? "the local part has " + std::to_string(f.L.size()) + " octets" : "the local part is invalid for the mode")};
            } else if (f.bracket) {
                if (f.lit.lower && !acc) return Failure{"rejects-valid-address", g_case, where + ": rejected although both halves are valid (literal): " + outcome_str(ob)};
                if (!f.lit.upper && acc) return Failure{"accepts-invalid-domain", g_case, where + ": accepted with a malformed address literal"};
            } else if (m < 3) {
                if (acc != f.host_ref) return Failure{acc ? "accepts-invalid-domain" : "rejects-valid-address", g_case, where + ": reference says local part valid and host name " + (f.host_ref ? "valid" : "invalid") + ", got " + outcome_str(ob)};
            } else {
                if (acc && !f.aform_host) return Failure{"accepts-invalid-domain", g_case, where + ": accepted but the A-label form '" + show(f.aform) + "' (conversion rc " + std::to_string(f.conv_rc) + ") is not a valid host name"};
            }
            if (acc) R.count(std::string("accepted-tld-off-") + ref::MODE_NAME[m]);
        }
    }
    return std::nullopt;
}
static bool run_one(Run &R, const Bytes &a, int mask) { auto f = check_one(R, a, mask); return !(f && !R.fail(*f)); }

static void stage_bounded(Run &R) {
    static const char AL[] = {'a', '@', '.', '[', ']', '1', ':', '"'};
    const int K = sizeof AL;
    int maxlen = R.a.thorough ? 8 : 7;
    uint64_t total = 0, idx = 0;
    std::vector<int> d(maxlen, 0);
    int dm = K_->default_mask();
    if (R.a.worker == 0 && !run_one(R, "", dm)) return;
    for (int len = 1; len <= maxlen; len++) {
        uint64_t cnt = 1; for (int i = 0; i < len; i++) cnt *= K;
        total += cnt; std::fill(d.begin(), d.end(), 0);
        for (uint64_t n = 0; n < cnt; n++) {
            if ((int) ((idx++ / 8) % R.a.nworkers) == R.a.worker) {
                Bytes b; for (int i = 0; i < len; i++) b += AL[d[i]];
                if (!run_one(R, b, dm)) return;
            }
            for (int i = len - 1; i >= 0; i--) { if (++d[i] < K) break; d[i] = 0; }
        }
    }
    R.space("C01 all strings of length 0.." + std::to_string(maxlen) + " over {a @ . [ ] 1 : \"} x 4 modes x tld_check {0,1}", total + 1);
}

// local-part length sweep across the 64-octet limit for every word shape
static void stage_lengths(Run &R) {
    uint64_t idx = 0, total = 0; int dm = K_->default_mask();
    auto go = [&](const Bytes &a) -> bool { total++; if ((int) (idx++ % R.a.nworkers) != R.a.worker) return true; return run_one(R, a, dm); };
    for (size_t n = 58; n <= 72; n++) {
        std::vector<Bytes> ls;
        ls.push_back(Bytes(n, 'a'));                                                       // atom
        { Bytes l; while (l.size() < n) { l += "ab."; } l.resize(n); if (l.back() == '.') l.back() = 'c'; ls.push_back(l); }   // dotted
        if (n >= 2) ls.push_back("\"" + Bytes(n - 2, 'q') + "\"");                          // quoted
        if (n >= 4) ls.push_back("\"" + Bytes(n - 4, 'q') + "\\ \"");                       // quoted with pair
        { Bytes l; while (l.size() + 2 <= n) l += "\xD0\x96"; while (l.size() < n) l += 'a'; ls.push_back(l); }             // UTF-8: bytes cross 64, characters do not
        { Bytes l; while (l.size() + 4 <= n) l += "\xF0\x90\x8D\x88"; while (l.size() < n) l += 'a'; ls.push_back(l); }
        if (n >= 6) ls.push_back("a.\"" + Bytes(n - 6, 'q') + "\".b");
        for (const Bytes &l : ls) for (const char *d : {"ok.com", "[1.2.3.4]", "x", "\xD0\xBF\xD0\xBE\xD1\x87\xD1\x82\xD0\xB0.\xD1\x80\xD1\x84", "a@b.com"})
            if (!go(l + "@" + d)) return;
    }
    // placement and number of '@'
    for (const char *a : {"@", "@@", "a@", "@b.com", "a@@b.com", "a@b@c.com", "\"a@b\"@c.com", "a@[1.2.3.4]@c.com", "a@b.com@", "a@b.com@[1.2.3.4]", "a@[1.2.3.4@5]", "a", "a.b", "\"@\"", " @b.com", "a@ b.com"})
        if (!go(a)) return;
    R.space("C01 local parts of 58..72 octets in 7 word shapes x 5 domains; '@' placement shapes", total);
}

// the address literals enumerated for C05, as domain parts of whole addresses
static void stage_literals(Run &R) {
    uint64_t idx = 0, total = 0; int dm = K_->default_mask();
    auto go = [&](const Bytes &l) -> bool { total++; if ((int) (idx++ % R.a.nworkers) != R.a.worker) return true; return run_one(R, (total % 5 == 0 ? "\"q q\"@" : "u@") + l, dm); };
    if (!lit::shapes(R.a.thorough, go)) return;
    R.space("C01 the enumerated address-literal texts of C05 (IPv6 shapes, octet values, longest spellings, every byte in the tag, out-of-range octets, bytes around the brackets) as domain part", total);
}
static void stage_random(Run &R) {
    uint64_t n = 0, discr0 = R.classes["mode-discriminating-local-part"];
    rc_run(R, "C01 generated addresses: model, composition and high-level call agree", 4.0, [&](Src &s) -> std::optional<Failure> {
        int mask = (int) s.pick(2048); int mh;
        Bytes a = gen_address(s, K_->T, &mh);
        n++;
        R.sample("random", show(a), 8);
        return check_one(R, a, mask);
    });
    uint64_t discr = R.classes["mode-discriminating-local-part"] - discr0;
    if (!R.failed() && n >= 1000 && discr * 10 < n) { R.health_fail = true; R.note("mode-discriminating cases " + std::to_string(discr) + " of " + std::to_string(n) + " (< 10%)"); }
}

static void stage_corpus(Run &R) {
    int dm = K_->default_mask(); uint64_t i = 0;
    for (const Bytes &l : corpus_lines(R.a.datadir)) { if ((int) (i++ % R.a.nworkers) != R.a.worker) continue; if (!run_one(R, l, dm)) return; if (!run_one(R, l, 0x7ff)) return; R.count("corpus-lines"); }
}

#ifndef VF_FUZZ
int main(int argc, char **argv) {
    return std_main(argc, argv, "C01", {{"bounded", stage_bounded}, {"lengths", stage_lengths}, {"random", stage_random}, {"literals", stage_literals}, {"corpus", stage_corpus}},
        [](Run &R, const Case &c) { return check_one(R, c.getb("addr"), (int) c.geti("mask")); }, [] { return g_case; },
        [](Run &R) { K_ = new Core(&dflt_api); return K_->init(R.a.datadir); }, [] { delete K_; });
}
#else
VF_FUZZ_TARGET("C01", [](Run &R) { K_ = new Core(&dflt_api); return K_->init(R.a.datadir); },
    [](Run &R, const uint8_t *d, size_t n) -> std::optional<Failure> {
        if (n < 2) return std::nullopt;
        int mask = (d[n - 1] | (d[n - 2] << 8)) % 2048; if (d[n - 1] & 0x80) mask = K_->default_mask();
        Bytes a = fuzz_bytes(d, n - 2); R.sample("fuzz", show(a.substr(0, 80)), 4);
        return check_one(R, a, mask); })
#endif
