// C06 — memory safety, no UB, no abort, no leak on every input (ASan + UBSan + LSan stages).
// Every public entry point is called on each input held in an exact-size heap block (reads
// outside [first byte, terminator] are ASan errors) and, in the guard stage, in a read-only
// page flush against an inaccessible page (a write to the input or a read past the terminator
// is a fault).  In-family differential for the uninitialised-field clause: the raw eav_t block
// is pre-filled with different byte patterns before eav_init; outcomes must not depend on it.
// (valgrind / callgrind stages: drivers/vg_replay.c, drivers/work.c; fuzzing: fuzz/fuzz_api.cpp.)
#include "../harness/rc_glue.hpp"
#include "../harness/addrcore.hpp"
#include "../harness/exercise.hpp"
#include <sys/mman.h>

using namespace vf;
extern "C" const vapi dflt_api, extra_api;
extern "C" int __lsan_do_recoverable_leak_check(void);
static const vapi *VAR[2] = {&dflt_api, &extra_api};
static ExObjs OB[2][3];       // [variant][prefill pattern]
static const int PREFILL[3] = {0x00, 0xFF, 0xA7};
static std::string g_case;
static Tlds T;
static char *g_guard_base = nullptr; static size_t g_guard_len = 0; // [data pages][PROT_NONE page]

static Case mkcase(const Bytes &a) { Case c; c.b("input", a); return c; }

// eav_t on the stack (alloca'd blocks of exactly sizeof(eav_t), filled with garbage before eav_init):
// the whole life cycle init / setup / is_email x2 / errstr / free per mode and tld_check; returns the digest
// of the outcomes, which must equal the heap objects' digest.
#include <alloca.h>
__attribute__((noinline)) static uint64_t stack_round(const vapi *A, const char *p, size_t n) {
    uint64_t h = 0; v_outcome o; size_t sz = A->obj_size();
    for (int m = 0; m < 4; m++) for (int t = 0; t < 2; t++) {
        void *e = alloca(sz); memset(e, 0x3C + m * 2 + t, sz);
        A->obj_init(e); A->obj_set_mode(e, m); A->obj_set_tld(e, t);
        if (A->obj_setup(e) != 0) abort();
        A->obj_is_email(e, p, n, &o);
        A->obj_is_email(e, p, n, &o); h = dig(h, o);
        A->obj_free(e);
    }
    return h;
}

static std::optional<Failure> check_one(Run &R, const Bytes &a, bool guard) {
    g_case = mkcase(a).str();
    uint64_t d[2][3];
    for (int v = 0; v < 2; v++) for (int f = 0; f < 3; f++) {
        if (guard) {
            size_t pg = 4096, need = a.size() + 1;
            if (need > g_guard_len) return std::nullopt;
            char *p = g_guard_base + g_guard_len - need;
            mprotect(g_guard_base, g_guard_len, PROT_READ | PROT_WRITE);
            memcpy(p, a.data(), a.size()); p[a.size()] = 0;
            mprotect(g_guard_base, g_guard_len, PROT_READ);  // the library must not write to its input
            (void) pg;
            d[v][f] = exercise_all(VAR[v], &OB[v][f], p, a.size());
        } else { ExactBuf b(a); d[v][f] = exercise_all(VAR[v], &OB[v][f], b.p, a.size()); }
        R.eval(40);
        if (guard && f == 0) break;
    }
    if (!guard) { // stack-allocated eav_t must behave exactly like the heap ones
        ExactBuf b(a);
        for (int v = 0; v < 2; v++) {
            uint64_t hs = stack_round(VAR[v], b.p, a.size()), hh = exercise_all(VAR[v], &OB[v][0], b.p, a.size(), 1); R.eval(24);
            if (hs != hh) return Failure{"stack-object-differs", g_case, std::string("outcomes for '") + show(a.substr(0, 200)) + "' differ between an eav_t on the stack (garbage before eav_init) and one on the heap (" + (v ? "EAV_EXTRA build" : "default build") + ")"};
        }
    }
    bool deep = a.size() >= 1024; size_t at = a.rfind('@'); if (at != Bytes::npos && at > 0 && at + 1 < a.size()) deep = true;
    if (deep) R.nontrivial(hashs(a));
    if (!guard) for (int v = 0; v < 2; v++) for (int f = 1; f < 3; f++)
        if (d[v][f] != d[v][0])
            return Failure{"depends-on-uninitialised-eav_t", g_case, std::string("outcomes for '") + show(a.substr(0, 200)) + "' differ when the raw eav_t block is pre-filled with 0x00 and with 0x" + (f == 1 ? "FF" : "A7") +
                           " before eav_init (" + (v ? "EAV_EXTRA build" : "default build") + "): a field that eav_init does not set is read"};
    return std::nullopt;
}
// Leak oracle: LSan's recoverable check runs per batch (it is expensive and finds a leaked block only
// once no stale pointer to it survives, so it cannot name the input).  On a report, the culprit is found
// by allocation accounting: an input that leaks makes the allocator's live-byte count grow on every
// repetition (__sanitizer_get_current_allocated_bytes, freed memory does not count).
extern "C" size_t __sanitizer_get_current_allocated_bytes(void);
static std::vector<Bytes> g_recent;
static long growth(const Bytes &a, int reps) {
    ExactBuf b(a);
    exercise_all(VAR[0], &OB[0][0], b.p, a.size()); exercise_all(VAR[1], &OB[1][0], b.p, a.size());   // settle (result records are replaced, not accumulated)
    size_t before = __sanitizer_get_current_allocated_bytes();
    for (int i = 0; i < reps; i++) { exercise_all(VAR[0], &OB[0][0], b.p, a.size()); exercise_all(VAR[1], &OB[1][0], b.p, a.size()); }
    return (long) __sanitizer_get_current_allocated_bytes() - (long) before;
}
static bool leaks(const Bytes &a) { return growth(a, 8) > 0 && growth(a, 32) >= 32; }
static std::optional<Failure> leak_guard(Run &R, bool force) {
    if (!force && g_recent.size() < 400) return std::nullopt;
    std::optional<Failure> res;
    if (__lsan_do_recoverable_leak_check() != 0) {
        for (const Bytes &a : g_recent)
            if (leaks(a)) { res = Failure{"leak", mkcase(a).str(), "memory allocated while validating '" + show(a.substr(0, 120)) + "' is never released: live heap bytes grow with every repetition of the same calls (all entry points, results freed), and LeakSanitizer reports unreachable blocks"}; break; }
        if (!res) res = Failure{"leak", mkcase(g_recent.empty() ? Bytes() : g_recent.back()).str(), "LeakSanitizer reported a leak for a batch of inputs but no single input shows allocation growth"};
    }
    g_recent.clear();
    (void) R;
    return res;
}
static bool run_one(Run &R, const Bytes &a, bool guard = false) {
    auto f = check_one(R, a, guard);
    if (f && !R.fail(*f)) return false;
    g_recent.push_back(a);
    auto l = leak_guard(R, false);
    return !(l && !R.fail(*l));
}

static std::vector<Bytes> templates() {
    std::vector<Bytes> t = {"simple@test.com", "a.b.c@sub.example.org", "\"q q\\\"x\"@mail.ru", "\"a\".\"b\"@x.museum", "\xD0\xB8\xD0\xB2\xD0\xB0\xD0\xBD@\xD0\xBF\xD0\xBE\xD1\x87\xD1\x82\xD0\xB0.\xD1\x80\xD1\x84",
        "u@[1.2.3.4]", "u@[IPv6:2001:db8::1:2]", "u@[IPv6:::ffff:192.0.2.128]", "u@[2001:db8:1:1:1:1:1:1]", "u@localhost", "u@mailbox.localhost", "u@example.com", "u@a-b.c-d.info", "u@xn--p1ai.xn--p1ai",
        "\"fold\r\n x\"@a.com", "\" sp \"@a.com", "a@b", "a@b.", "a@b..", "a@.b", "@", "a@", "@b", "a", ".", "..", "a@[", "a@[]", "a@]", "a@[1.2.3.4", "a@1.2.3.4]", "a@[IPv6:]", "a@[:]", "a@[::]", "a@[.]",
        "a@exampleX.com", "a@example.co", "a@x.example", "a@\xE5\xBE\xAE\xE5\x8D\x9A.\xE5\xBE\xAE\xE5\x8D\x9A", "\xE2\x84\x96" "123@x.com", "a@\xE2\x99\xA5.de", "a\\b@c.com", "\"a\\\"@c.com", "\"\\", "\"", "\"\"@a.b", "a.@b.c",
        "a@b.c.d.e.f.g.h.i.j.k.l.m.n", "user@mail.EXAMPLE.org.", "u@example.com.", "u@company.info", "u@a.example.test", "a@1.2.3.4", "a@0.0", "a@-", "a@-.-", "a@a-", "a@xn--", "a@xn--a.xn--b"};
    return t;
}

static void stage_sweep(Run &R) {
    std::vector<Bytes> tpl = templates();
    uint64_t idx = 0, total = 0;
    for (const Bytes &t : tpl) {
        // structural positions: first, last, each side of at-sign, brackets, dot, quote, backslash, colon
        std::set<size_t> pos = {0, t.size()};
        for (size_t i = 0; i < t.size(); i++) if (strchr("@[].\"\\:", t[i])) { pos.insert(i); pos.insert(i + 1); }
        if (t.size() > 0) pos.insert(t.size() - 1);
        for (size_t p : pos) for (int x = 1; x < 256; x++) for (int op = 0; op < 2; op++) {
            total++; if ((int) (idx++ % R.a.nworkers) != R.a.worker) continue;
            Bytes m = t;
            if (op == 0) m.insert(m.begin() + p, (char) x); else { if (p >= m.size()) continue; m[p] = (char) x; }
            if (!run_one(R, m)) return;
        }
    }
    if (auto l = leak_guard(R, true)) { if (!R.fail(*l)) return; }
    R.space("C06 positional byte sweep: " + std::to_string(tpl.size()) + " templates x every structural position (first, last, each side of @ [ ] . \" \\ :) x bytes 0x01..0xFF x {insert, replace} x all entry points x 2 builds x 3 eav_t pre-fills", total);
}

static Bytes shape(int k, size_t n) {
    Bytes s;
    switch (k) {
    case 0: s.assign(n, '@'); break;
    case 1: s.assign(n, '.'); break;
    case 2: s.assign(n, '"'); break;
    case 3: for (size_t i = 0; i < n; i++) s += (i % 2 ? '.' : 'a'); break;
    case 4: s = "a@["; for (size_t i = 3; i < n; i++) s += (i % 5 == 0 ? ':' : char('0' + i % 10)); break;
    case 5: s = "a@"; while (s.size() < n) s += 'l'; break;
    case 6: while (s.size() + 2 <= n) s += "\xD0\x96"; break;
    case 7: s = "\""; while (s.size() + 2 < n) s += (s.size() % 3 ? ' ' : 'q'); s += "\"@x.com"; break;
    case 8: s = "a@"; while (s.size() < n) { s += "ab."; } break;
    case 9: s = "a@["; while (s.size() < n) s += "1."; break;
    case 10: s = "a@[IPv6:"; while (s.size() < n) s += "::"; break;
    case 11: s.assign(n, '\\'); s[0] = '"'; break;
    case 12: s = "a@"; while (s.size() < n) s += "\xE5\xBE\xAE."; break;
    case 13: s = "a@x."; while (s.size() < n) s += "example."; break;
    case 14: s = "a@[1.2.3."; while (s.size() + 1 < n) s += '9'; s += "]"; break;
    case 15: s = "a@["; while (s.size() + 7 < n) s += '4'; s += ".2.3.4]"; break;
    case 16: s = "a@[IPv6:::ffff:1.2.3."; while (s.size() + 1 < n) s += (s.size() % 2 ? '2' : '9'); s += "]"; break;
    }
    for (auto &c : s) if (c == 0) c = 1;
    return s;
}
static void stage_shapes(Run &R) {
    uint64_t idx = 0, total = 0;
    std::vector<size_t> lens = {0, 1, 2, 12, 16, 19, 20, 21, 30, 63, 64, 65, 66, 253, 254, 255, 256, 257, 1023, 1024, 1025, 4096, 65535, 65536};
    for (int k = 0; k < 17; k++) for (size_t n : lens) {
        total++; if ((int) (idx++ % R.a.nworkers) != R.a.worker) continue;
        if (!run_one(R, shape(k, n))) return;
        if (!run_one(R, shape(k, n), true)) return;
        R.sample("shape", "shape " + std::to_string(k) + " length " + std::to_string(n), 4);
    }
    for (int x = 1; x < 256; x++) { total++; if ((int) (idx++ % R.a.nworkers) != R.a.worker) continue; if (!run_one(R, Bytes(1, (char) x))) return; if (!run_one(R, Bytes(1, (char) x), true)) return; }
    if (auto l = leak_guard(R, true)) R.fail(*l);
    R.space("C06 17 adversarial shapes x 24 lengths (0, 1, 2, 12-30, 63-66, 253-257, 1023-1025, 4096, 65535, 65536) + all 1-byte inputs, each also in a read-only page against a guard page", total);
}

// Stack use must not grow with the input: every entry point on inputs of 64 KiB - 2 MiB inside a thread whose stack is
// 512 KiB (server worker threads commonly have 64-512 KiB).  A copy of the input on the stack (alloca, variable-length
// array, recursion per byte) overflows there; the overflow is a SIGSEGV that ASan reports as stack-overflow.
struct StackJob { const Bytes *a; uint64_t digest; };
static void *stack_thread(void *p) { StackJob *j = (StackJob *) p; ExactBuf b(*j->a); j->digest = exercise_all(VAR[0], &OB[0][0], b.p, j->a->size()) ^ exercise_all(VAR[1], &OB[1][0], b.p, j->a->size()); return nullptr; }
static std::optional<Failure> check_stack(Run &R, int k, size_t n) {
    Case cs; cs.i("stackshape", k).i("len", (long long) n); g_case = cs.str();
    Bytes a = shape(k, n); StackJob j{&a, 0};
    pthread_attr_t at; pthread_attr_init(&at); pthread_attr_setstacksize(&at, 512 * 1024);
    pthread_t t; if (pthread_create(&t, &at, stack_thread, &j) != 0) return Failure{"harness-error", g_case, "pthread_create failed"};
    pthread_join(t, nullptr); pthread_attr_destroy(&at);
    R.eval(96); R.nontrivial(hashs(g_case)); R.count("small-stack-thread");
    ExactBuf b(a); uint64_t ref = exercise_all(VAR[0], &OB[0][0], b.p, a.size()) ^ exercise_all(VAR[1], &OB[1][0], b.p, a.size());
    if (ref != j.digest) return Failure{"thread-differs", g_case, "outcomes in a small-stack thread differ from the main thread for shape " + std::to_string(k) + " length " + std::to_string(n)};
    return std::nullopt;
}
static void stage_stack(Run &R) {
    uint64_t idx = 0, total = 0;
    std::vector<size_t> lens = {65536, 300000, 1 << 20}; if (R.a.thorough) { lens.push_back(2 << 20); lens.push_back(9 << 20); }
    for (int k = 0; k < 17; k++) for (size_t n : lens) {
        total++; if ((int) (idx++ % R.a.nworkers) != R.a.worker) continue;
        auto f = check_stack(R, k, n); if (f && !R.fail(*f)) return;
        R.sample("stack", "shape " + std::to_string(k) + " length " + std::to_string(n) + " in a thread with a 512 KiB stack", 3);
    }
    R.space("C06 17 adversarial shapes x lengths {64 KiB, 300 000, 1 MiB" + std::string(R.a.thorough ? ", 2 MiB, 9 MiB" : "") + "} through every entry point inside a thread with a 512 KiB stack", total);
}

static void stage_guard(Run &R) {
    uint64_t i = 0;
    for (const Bytes &l : corpus_lines(R.a.datadir)) { if ((int) (i++ % R.a.nworkers) != R.a.worker) continue; if (!run_one(R, l, true)) return; R.count("corpus-lines-guarded"); }
    for (const Bytes &t : templates()) { if ((int) (i++ % R.a.nworkers) != R.a.worker) continue; for (size_t n = 0; n <= t.size(); n++) if (!run_one(R, t.substr(0, n), true)) return; }
    if (auto l = leak_guard(R, true)) R.fail(*l);
}

static void stage_random(Run &R) {
    std::optional<Failure> leak;
    rc_run(R, "C06 all entry points on generated inputs (exact-size heap block, 3 eav_t pre-fills, 2 builds)", 4.0, [&](Src &s) -> std::optional<Failure> {
        if (leak) return leak;
        Bytes a = gen_address(s, T);
        if (s.chance(1, 8)) { Bytes pad(200 + s.pick(3000), char('a' + s.pick(26))); a.insert(s.pick((uint32_t) a.size() + 1), pad); }
        auto f = check_one(R, a, s.chance(1, 4));
        if (f) return f;
        g_recent.push_back(a);
        leak = leak_guard(R, false);
        return leak;
    });
    if (!R.failed()) if (auto l = leak_guard(R, true)) R.fail(*l);
}

// writes generated inputs (hex, one per line) for the valgrind replay stage
static void stage_emit(Run &R) {
    FILE *f = fopen((R.a.out + "/emit.hex").c_str(), "w"); if (!f) return;
    rc_run(R, "emit generated inputs", 4.0, [&](Src &s) -> std::optional<Failure> {
        Bytes a = gen_address(s, T); fprintf(f, "%s\n", hexs(a).c_str()); return std::nullopt; });
    fclose(f);
}

int main(int argc, char **argv) {
    return std_main(argc, argv, "C06", {{"emit", stage_emit}, {"sweep", stage_sweep}, {"shapes", stage_shapes}, {"guard", stage_guard}, {"random", stage_random}, {"stack", stage_stack}},
        [](Run &R, const Case &c) -> std::optional<Failure> {
            if (c.has("stackshape")) return check_stack(R, (int) c.geti("stackshape"), (size_t) c.geti("len"));
            Bytes a = c.getb("input"); __lsan_do_recoverable_leak_check();
            auto f = check_one(R, a, false); if (f) return f;
            f = check_one(R, a, true); if (f) return f;
            if (leaks(a)) return Failure{"leak", mkcase(a).str(), "memory allocated while validating this input is never released (live heap bytes grow with every repetition)"};
            return std::nullopt; }, [] { return g_case; },
        [](Run &R) {
            if (!T.load(R.a.datadir)) return false;
            for (int v = 0; v < 2; v++) for (int f = 0; f < 3; f++) if (!make_objs(VAR[v], &OB[v][f], PREFILL[f])) return false;
            g_guard_len = 17 * 4096;
            g_guard_base = (char *) mmap(nullptr, g_guard_len + 4096, PROT_READ | PROT_WRITE, MAP_PRIVATE | MAP_ANONYMOUS, -1, 0);
            if (g_guard_base == MAP_FAILED) return false;
            mprotect(g_guard_base + g_guard_len, 4096, PROT_NONE);
            return true;
        },
        [] { for (int v = 0; v < 2; v++) for (int f = 0; f < 3; f++) free_objs(&OB[v][f]); });
}
