// C15 — diagnostics are truthful: the reported reason really holds of the input.
// Oracles: (i) ret==1 <=> errcode==NO_ERROR, rejected => non-empty message;
// (ii) the code equals the one returned by the failing public per-part validator;
// (iii) err_truth: one necessary condition per error code, a plain predicate on the
// input (domain codes judged on the A-label form in mode 6531); (iv) eav_setup return
// values and the message after an invalid mode; (v) message/code alignment without
// freezing the wording.
#include "../harness/rc_glue.hpp"
#include "../harness/addrcore.hpp"
#include "../harness/litshapes.hpp"

using namespace vf;
extern "C" const vapi dflt_api, o001_api;
static Core *K_, *KD_, *KU_;    // current / default build / LABELS_ALLOW_UNDERSCORE build
static bool g_us = false;
static std::string g_case;
static std::map<int, std::string> g_text; // errcode -> message seen
static std::map<std::string, int> E;      // name -> value
static const int LOCAL[4] = {VP_822_LOCAL, VP_5321_LOCAL, VP_5322_LOCAL, VP_6531_LOCAL};
static const char *CODES[] = {"NO_ERROR", "INVALID_RFC", "IDN_ERROR", "EMAIL_EMPTY", "LPART_EMPTY", "LPART_TOO_LONG", "LPART_NOT_ASCII", "LPART_SPECIAL", "LPART_CTRL_CHAR",
    "LPART_MISPLACED_QUOTE", "LPART_UNQUOTED", "LPART_TOO_MANY_DOTS", "LPART_MISPLACED_DOT", "LPART_UNQUOTED_FWS", "LPART_INVALID_FOLDING", "LPART_INVALID_UTF8", "DOMAIN_EMPTY",
    "DOMAIN_LABEL_TOO_LONG", "DOMAIN_MISPLACED_HYPHEN", "DOMAIN_MISPLACED_DELIMITER", "DOMAIN_INVALID_CHAR", "DOMAIN_TOO_LONG", "DOMAIN_NUMERIC", "DOMAIN_NOT_FQDN", "IPADDR_INVALID",
    "IPADDR_BRACKET_UNPAIR", "TLD_INVALID", "TLD_NOT_ASSIGNED", "TLD_COUNTRY_CODE", "TLD_GENERIC", "TLD_GENERIC_RESTRICTED", "TLD_INFRASTRUCTURE", "TLD_SPONSORED", "TLD_TEST",
    "TLD_SPECIAL", "TLD_RETIRED"};
static std::string name_of(int code) { for (auto &p : E) if (p.second == code) return p.first; return "code" + std::to_string(code); }

static Case mkcase(const Bytes &a, int mask) { Case c; c.i("kind", 0).b("addr", a).i("mask", mask); return c; }
static bool ci_has(const std::string &s, const char *w) { std::string a = s, b = w; for (auto &c : a) c = (char) tolower((unsigned char) c); for (auto &c : b) c = (char) tolower((unsigned char) c); return a.find(b) != std::string::npos; }

// (v) wording rules for one (code, text)
static std::string wording(int code, const std::string &text) {
    std::string n = name_of(code);
    if (text.empty()) return "empty message";
    if (n.rfind("LPART_", 0) == 0 && !ci_has(text, "local")) return "a local-part code whose message does not mention 'local'";
    if (n.rfind("DOMAIN_", 0) == 0 && !ci_has(text, "domain") && !ci_has(text, "label")) return "a domain code whose message mentions neither 'domain' nor 'label'";
    if (n.rfind("IPADDR_", 0) == 0 && !ci_has(text, "ip")) return "an address-literal code whose message does not mention 'ip'";
    if (n.rfind("TLD_", 0) == 0 && !ci_has(text, "tld")) return "a TLD code whose message does not mention 'TLD'";
    if (n == "LPART_TOO_MANY_DOTS" && !ci_has(text, "too many dots")) return "message lacks 'too many dots'";
    if (n == "LPART_TOO_LONG" && !ci_has(text, "too long")) return "message lacks 'too long'";
    if (n == "TLD_INVALID" && !ci_has(text, "invalid tld")) return "message lacks 'invalid TLD'";
    if (n == "INVALID_RFC" && !ci_has(text, "rfc")) return "message does not mention 'RFC'";
    // concept word of the condition the code names (any of a few synonyms, so that a rewording does not alarm; a swap of two
    // table rows that name different concepts does)
    static const struct { const char *name; const char *alts[5]; } CONCEPT[] = {
        {"EMAIL_EMPTY", {"empty", nullptr}}, {"LPART_EMPTY", {"empty", nullptr}}, {"LPART_NOT_ASCII", {"ascii", nullptr}}, {"LPART_SPECIAL", {"special", nullptr}},
        {"LPART_CTRL_CHAR", {"control", "ctrl", nullptr}}, {"LPART_MISPLACED_QUOTE", {"quote", nullptr}}, {"LPART_UNQUOTED", {"quote", nullptr}}, {"LPART_MISPLACED_DOT", {"dot", "period", nullptr}},
        {"LPART_UNQUOTED_FWS", {"quot", "whitespace", "fws", nullptr}}, {"LPART_INVALID_FOLDING", {"fold", nullptr}}, {"LPART_INVALID_UTF8", {"utf", nullptr}}, {"DOMAIN_EMPTY", {"empty", nullptr}},
        {"DOMAIN_LABEL_TOO_LONG", {"long", nullptr}}, {"DOMAIN_MISPLACED_HYPHEN", {"hyphen", "dash", nullptr}}, {"DOMAIN_MISPLACED_DELIMITER", {"delimiter", "dot", "separator", nullptr}},
        {"DOMAIN_INVALID_CHAR", {"char", nullptr}}, {"DOMAIN_TOO_LONG", {"long", nullptr}}, {"DOMAIN_NUMERIC", {"numeric", "digit", nullptr}}, {"DOMAIN_NOT_FQDN", {"fqdn", "qualified", nullptr}},
        {"IPADDR_BRACKET_UNPAIR", {"bracket", nullptr}}, {"TLD_NOT_ASSIGNED", {"assigned", nullptr}}, {"TLD_COUNTRY_CODE", {"country", nullptr}}, {"TLD_GENERIC", {"generic", nullptr}},
        {"TLD_GENERIC_RESTRICTED", {"restricted", nullptr}}, {"TLD_INFRASTRUCTURE", {"infrastructure", nullptr}}, {"TLD_SPONSORED", {"sponsored", nullptr}}, {"TLD_TEST", {"test", nullptr}},
        {"TLD_SPECIAL", {"special", "reserved", nullptr}}, {"TLD_RETIRED", {"retired", nullptr}}};
    for (auto &c : CONCEPT) if (n == c.name) { bool ok = false; for (int i = 0; c.alts[i]; i++) if (ci_has(text, c.alts[i])) ok = true; if (!ok) return std::string("message does not name the condition of the code (none of: ") + c.alts[0] + " ...)"; }
    if (n == "TLD_GENERIC" && ci_has(text, "restricted")) return "the message of the generic class says 'restricted'";
    return "";
}
static std::optional<Failure> note_text(int code, const std::string &text, const std::string &cs) {
    if (code == E["IDN_ERROR"]) return std::nullopt;
    auto it = g_text.find(code);
    if (it == g_text.end()) {
        for (auto &p : g_text) if (p.second == text) return Failure{"message-shared-by-two-codes", cs, "codes " + name_of(p.first) + " and " + name_of(code) + " share the message '" + text + "'"};
        g_text[code] = text;
        std::string w = wording(code, text);
        if (!w.empty()) return Failure{"message-code-misaligned", cs, name_of(code) + " has message '" + text + "': " + w};
    } else if (it->second != text) return Failure{"message-not-function-of-code", cs, name_of(code) + " reported as '" + it->second + "' and as '" + text + "'"};
    return std::nullopt;
}

static bool has_ctl(const Bytes &s) { for (unsigned char c : s) if (c < 0x20 || c == 0x7f) return true; return false; }
static bool has_any(const Bytes &s, const char *set) { return s.find_first_of(set) != Bytes::npos; }

// (iii) necessary condition for `code` to be a truthful description; returns "" when it holds
static std::string err_truth(const Facts &f, int m, int t, int mask, const v_outcome &o) {
    const Consts &C = K_->C; int e = o.errcode; std::string n = name_of(e);
    const Bytes &L = f.L;
    if (n == "EMAIL_EMPTY") return f.a.empty() ? "" : "the address is not empty";
    if (f.a.empty()) return "the empty address must be reported as empty";
    if (n == "INVALID_RFC") return "eav_is_email never has an invalid-RFC condition";
    if (n == "LPART_EMPTY") return f.has_at && f.at == 0 ? "" : "the local part is not empty";
    if (n == "LPART_TOO_LONG") return f.has_at && L.size() > 64 ? "" : "the local part has " + std::to_string(L.size()) + " octets (<= 64)";
    if (n.rfind("LPART_", 0) == 0) {
        if (!f.has_at || f.D.empty()) return "a local-part error although there is no '@' / no domain";
        if (f.lref[m]) return "the local part is valid for mode " + std::string(ref::MODE_NAME[m]) + " by the reference recogniser";
        if (n == "LPART_NOT_ASCII") return m < 3 && !f.l_ascii ? "" : "no non-ASCII byte in an ASCII mode";
        if (n == "LPART_SPECIAL") return has_any(L, "()<>@,;:\\[] ") ? "" : "no special character or space in the local part";
        if (n == "LPART_CTRL_CHAR") return has_ctl(L) ? "" : "no control character in the local part";
        if (n == "LPART_MISPLACED_QUOTE" || n == "LPART_UNQUOTED") return has_any(L, "\"") ? "" : "no DQUOTE in the local part";
        if (n == "LPART_TOO_MANY_DOTS") return L.find("..") != Bytes::npos ? "" : "the local part does not contain '..'";
        if (n == "LPART_MISPLACED_DOT") return (!L.empty() && (L[0] == '.' || L.back() == '.')) ? "" : "the local part neither starts nor ends with '.'";
        if (n == "LPART_UNQUOTED_FWS") return m == 2 && has_any(L, " \t\r\n") ? "" : "not mode 5322 or no SP/HT/CR/LF in the local part";
        if (n == "LPART_INVALID_FOLDING") return m == 0 && has_any(L, "\r") ? "" : "not mode 822 or no CR in the local part";
        if (n == "LPART_INVALID_UTF8") return m == 3 && !ref::utf8_ok(L) ? "" : "the local part is well-formed UTF-8 (or not mode 6531)";
        return "";
    }
    if (n == "DOMAIN_EMPTY") {
        if (!f.has_at || f.D.empty()) return "";
        // mode 6531 judges the A-label form: a domain made only of characters IDNA maps to nothing (U+00AD, U+200B ...) IS empty after the mapping
        if (m == 3 && !f.bracket && f.conv_ok && f.aform.empty()) return "";
        return "the domain is not empty";
    }
    if (!f.has_at || f.D.empty()) return "a domain-side error although the address has no domain part";
    if (L.size() <= 64 && !L.empty() && !f.lref[m]) return "a domain-side error although the local part is invalid for the mode (the local part is judged first)";
    if (n.rfind("IPADDR_", 0) == 0) {
        if (!f.bracket) return "an address-literal error although the domain does not start with '['";
        if (n == "IPADDR_BRACKET_UNPAIR" && f.D.find(']') != Bytes::npos) return "'unpaired bracket' although the domain contains ']'";
        if (f.lit.lower) return "the literal is valid by RFC 5321 4.1.3";
        return "";
    }
    if (n == "IDN_ERROR") {
        if (m != 3) return "IDN error outside mode 6531";
        if (f.bracket) return "IDN error for an address literal";
        if (f.conv_ok) return "the IDN library converts this domain without error";
        if (o.idn_rc != f.conv_rc) return "idn_rc " + std::to_string(o.idn_rc) + " differs from the library's own code " + std::to_string(f.conv_rc);
        if (o.errstr_null || std::string(o.errstr) != idn2_strerror(f.conv_rc)) return std::string("message is not the IDN library's message '") + idn2_strerror(f.conv_rc) + "'";
        return "";
    }
    if (f.bracket) return "a host-name/TLD error for a domain starting with '['";
    // host-name side: judged on D (ASCII modes) or on the A-label form (6531)
    Bytes X;
    if (m < 3) X = f.D; else { if (!f.conv_ok) return "a domain/TLD code in mode 6531 although IDNA conversion fails (must be the IDN error)"; X = f.aform; }
    Bytes Xs = X; if (Xs.size() >= 2 && Xs.back() == '.') Xs.pop_back();
    std::vector<Bytes> labs = ref::split_labels(Xs);
    if (n == "DOMAIN_INVALID_CHAR" && g_us) { for (unsigned char c : X) if (!(c < 0x80 && (isalnum(c) || c == '-' || c == '.' || c == '_'))) return ""; return "only letters, digits, '-', '_' and '.' in the domain (LABELS_ALLOW_UNDERSCORE build)"; }
    if (n == "DOMAIN_LABEL_TOO_LONG") { for (auto &l : labs) if (l.size() > 63) return ""; return "no label longer than 63"; }
    if (n == "DOMAIN_MISPLACED_HYPHEN") { for (auto &l : labs) if (!l.empty() && (l[0] == '-' || l.back() == '-')) return ""; return "no label starts or ends with '-'"; }
    if (n == "DOMAIN_MISPLACED_DELIMITER") { for (auto &l : labs) if (l.empty()) return ""; return "no empty label"; }
    if (n == "DOMAIN_INVALID_CHAR") { for (unsigned char c : X) if (!(c < 0x80 && (isalnum(c) || c == '-' || c == '.'))) return ""; return "only letters, digits, '-' and '.' in the domain"; }
    if (n == "DOMAIN_TOO_LONG") return X.size() >= 254 ? "" : "the domain has " + std::to_string(X.size()) + " octets";
    if (n == "DOMAIN_NUMERIC") { for (unsigned char c : X) if (!(isdigit(c) || c == '.')) return "the domain is not made of digits and dots only"; return ""; }
    if (n == "DOMAIN_INVALID_CHAR" && g_us) { for (unsigned char c : X) if (!(c < 0x80 && (isalnum(c) || c == '-' || c == '.' || c == '_'))) return ""; return "only letters, digits, '-', '_' and '.' in the domain (underscore build)"; }
    if (n.rfind("DOMAIN_", 0) == 0 && n != "DOMAIN_NOT_FQDN") return "";
    // TLD-level codes need TLD checking and a syntactically valid host
    if (!t) return "a FQDN/TLD code with TLD checking off";
    if (!ref::host_ok(X, g_us)) return "a FQDN/TLD code although the host name is syntactically invalid";
    if (n == "DOMAIN_NOT_FQDN") return (X.find('.') == Bytes::npos && !ref::reserved(X)) ? "" : "the domain has a dot or is a reserved name";
    // root-dot spellings are outside the statements of C07/C09: class judged on the dot-less form, 'invalid TLD' not judged
    int cls = tld_class(K_->T, C, Xs);
    if (n == "TLD_INVALID") return (cls == -1 || X.back() == '.') ? "" : "the last label is in the table (or the domain is reserved / single-label)";
    for (int k = 0; k < 9; k++) if (e == C.eeav_tld[k]) {
        if (cls != k) return std::string("the domain's class is ") + (cls >= 0 ? CLASS_NAMES[cls] : "none") + ", not " + CLASS_NAMES[k];
        if (mask & C.bit[k]) return "the class bit is set in allow_tld, so the class is allowed";
        return "";
    }
    return "";
}

static std::optional<Failure> check_build(Run &R, const Bytes &a, int mask);
static std::optional<Failure> check_one(Run &R, const Bytes &a, int mask) {
    K_ = KD_; g_us = false;
    auto f = check_build(R, a, mask);
    if (f) return f;
    size_t at = a.rfind('@');
    if (KU_ && at != Bytes::npos && a.find('_', at) != Bytes::npos) {   // the option build judges domains with '_' differently: same truthfulness rules
        K_ = KU_; g_us = true; f = check_build(R, a, mask); K_ = KD_; g_us = false;
        if (f) f->explain = "[LABELS_ALLOW_UNDERSCORE build] " + f->explain;
    }
    return f;
}
static std::optional<Failure> check_build(Run &R, const Bytes &a, int mask) {
    Core &K = *K_; const Consts &C = K.C;
    g_case = mkcase(a, mask).str();
    Facts f = facts(K.T, C, a, g_us);
    Outs o = K.run(a, mask);
    R.eval(16);
    for (int m = 0; m < 4; m++) { std::string w = veteran_differs(o, m); R.eval(); if (!w.empty()) return Failure{"diagnostic-after-history", g_case, "address '" + show(a) + "': " + w + " (code and message must describe this call under the confirmed mode)"}; }
    for (int m = 0; m < 4; m++) for (int t = 0; t < 2; t++) {
        const v_outcome &x = o.obj[m][t];
        std::string where = std::string("mode ") + ref::MODE_NAME[m] + " tld_check=" + std::to_string(t) + " address '" + show(a) + "': " + outcome_str(x);
        if ((x.ret == 1) != (x.errcode == C.E_NO_ERROR) || (x.ret != 0 && x.ret != 1)) return Failure{"ret-vs-errcode", g_case, where + ": return value and recorded error disagree"};
        if (x.errcode < 0 || x.errcode >= E["MAX"]) return Failure{"errcode-out-of-range", g_case, where};
        if (x.errstr_null) return Failure{"null-message", g_case, where + ": eav_errstr returned NULL"};
        if (auto fl = note_text(x.errcode, x.errstr, g_case)) return fl;
        if (x.ret == 1) continue;
        if (x.errstr[0] == 0) return Failure{"empty-message", g_case, where};
        R.nontrivial(hashs(a, (uint64_t) x.errcode * 8 + m * 2 + t));
        R.count("code:" + name_of(x.errcode));
        R.sample("code:" + name_of(x.errcode), std::string(ref::MODE_NAME[m]) + " '" + show(a) + "' -> " + x.errstr, 1);
        // (iii)
        std::string why = err_truth(f, m, t, o.mask[t], x);
        if (!why.empty()) return Failure{"untruthful-" + name_of(x.errcode), g_case, where + ": reported " + name_of(x.errcode) + " ('" + x.errstr + "') but " + why};
        // (ii) the failing per-part validator, called directly, returns the same code
        std::string n = name_of(x.errcode);
        if (f.has_at && !f.D.empty() && f.L.size() <= 64) {
            char *p = K.TB.place(f.a, 0); const char *d = p + f.at + 1, *e = p + f.a.size();
            if (n.rfind("LPART_", 0) == 0) { int r = K.A->part(LOCAL[m], p, p + f.at, 0, nullptr); R.eval(); if (r != -x.errcode) return Failure{"code-differs-from-validator", g_case, where + ": is_" + ref::MODE_NAME[m] + "_local returns " + std::to_string(r)}; }
            else if (n.rfind("DOMAIN_", 0) == 0 && n != "DOMAIN_NOT_FQDN" && n != "DOMAIN_EMPTY" && !f.bracket) {
                int r = m < 3 ? K.A->part(VP_ASCII_DOMAIN, d, e, 0, nullptr) : K.A->part(VP_UTF8_DOMAIN, d, e, t, nullptr); R.eval();
                if (r != -x.errcode) return Failure{"code-differs-from-validator", g_case, where + ": the domain validator returns " + std::to_string(r)};
            }
        }
    }
    return std::nullopt;
}
static bool run_one(Run &R, const Bytes &a, int mask) { auto f = check_one(R, a, mask); return !(f && !R.fail(*f)); }

// (iv) eav_setup: return values for every class of rfc value, and the message after an invalid one
static std::optional<Failure> check_setup(Run &R, int raw, const Bytes &prev_addr, int mode0 = 1) {
    const vapi *A = K_->A; Case cs; cs.i("kind", 1).i("raw", raw).b("prev", prev_addr).i("mode0", mode0); g_case = cs.str();
    K k(A);
    bool valid = raw == k("EAV_RFC_822") || raw == k("EAV_RFC_5321") || raw == k("EAV_RFC_5322") || raw == k("EAV_RFC_6531");
    Obj o(A); TailBuf tb;
    if (o.configure(mode0, 1) != 0) return Failure{"setup-valid-mode-fails", cs.str(), "eav_setup failed for a defined mode"};
    v_outcome ok = o.is_email_tail(tb, "a@b.com"); std::string noerr = ok.errstr;   // the library's own 'no error' text
    v_outcome prev; memset(&prev, 0, sizeof prev);
    if (!prev_addr.empty()) prev = o.is_email_tail(tb, prev_addr);
    A->obj_set_rfc_raw(o.p, raw);
    int rc = A->obj_setup(o.p); R.eval();
    R.nontrivial(hashs(prev_addr, (uint64_t) (unsigned) raw * 4 + mode0));
    R.count(valid ? "setup-valid" : "setup-invalid");
    if (valid) { if (rc != 0) return Failure{"setup-valid-mode-fails", cs.str(), "eav_setup returned " + std::to_string(rc) + " for defined mode value " + std::to_string(raw)}; return std::nullopt; }
    if (rc != k("EEAV_INVALID_RFC")) return Failure{"setup-invalid-mode-return", cs.str(), "eav_setup returned " + std::to_string(rc) + " for rfc=" + std::to_string(raw) + ", documented EEAV_INVALID_RFC"};
    v_outcome es; A->obj_errstr(o.p, &es);
    std::string where = "after eav_setup failed for rfc=" + std::to_string(raw) + (prev_addr.empty() ? "" : " (previous call rejected '" + show(prev_addr) + "' with '" + prev.errstr + "')") + ": eav_errstr = '" + (es.errstr_null ? "(null)" : es.errstr) + "'";
    if (es.errstr_null || es.errstr[0] == 0) return Failure{"setup-invalid-mode-message", cs.str(), where + ": empty"};
    if (noerr == es.errstr) return Failure{"setup-invalid-mode-message", cs.str(), where + ": that is the 'no error' text"};
    if (!prev_addr.empty() && prev.ret == 0 && prev.errcode != k("EEAV_INVALID_RFC") && std::string(prev.errstr) == es.errstr) return Failure{"setup-invalid-mode-message", cs.str(), where + ": that is the previous address's message"};
    if (!ci_has(es.errstr, "rfc")) return Failure{"setup-invalid-mode-message", cs.str(), where + ": does not report the invalid-RFC condition"};
    return std::nullopt;
}
static void stage_setup(Run &R) {
    K k(K_->A);
    std::vector<int> raws = {k("EAV_RFC_822"), k("EAV_RFC_5321"), k("EAV_RFC_5322"), k("EAV_RFC_6531"), -1, 4, 5, 7, 100, 255, 256, 65536, INT_MAX, INT_MIN, -2, 1 << 30};
    for (int m0 = 0; m0 < 4; m0++) for (int r : raws) for (const char *p : {"", "a..b@c.com", "a@b", "a@-b.com", "a@b.zzunlisted", "\xD0\x96@\xE2\x99\xA5.com", "a@[1.2.3]", "user@xn--a.com", "a@b.com"}) {
        auto f = check_setup(R, r, p, m0); if (f && !R.fail(*f)) return;
    }
    R.sample("setup", "rfc raw values {4 defined, -1, 4, 5, 7, 100, 255, 256, 65536, INT_MAX, INT_MIN, ...} x 7 previous outcomes");
    R.space("C15 eav_setup: 4 initial modes x 16 rfc values x 9 preceding outcomes (incl. an IDN-library error in mode 6531)", 4 * raws.size() * 9);
}

// every code through a caller-installed callback: messages of all 35 codes (v) incl. TEST / RETIRED
static void stage_codes(Run &R) {
    const vapi *A = K_->A; const Consts &C = K_->C; TailBuf tb;
    for (int mode : {0, 3}) for (int code = 1; code < E["MAX"]; code++) {
        Case cs; cs.i("kind", 2).i("mode", mode).i("code", code); g_case = cs.str();
        Obj o(A); if (o.configure(mode, 1, 0) != 0) { R.fail(Failure{"setup-failed", g_case, ""}); return; }
        int rc = -code; for (int k = 0; k < 9; k++) if (C.eeav_tld[k] == code) rc = C.tld_type[k]; // class codes via the class result + cleared bit
        A->obj_install_cb(o.p, rc);
        v_outcome x = o.is_email_tail(tb, "a@b.c"); R.eval();
        if (x.ret != 0 || x.errcode != code) { R.fail(Failure{"callback-code-mapping", g_case, "callback result " + std::to_string(rc) + " -> " + outcome_str(x) + ", expected errcode " + std::to_string(code)}); return; }
        if (x.errstr_null || x.errstr[0] == 0) { R.fail(Failure{"empty-message", g_case, name_of(code) + ": " + outcome_str(x)}); return; }
        if (auto f = note_text(code, x.errstr, g_case)) { if (!R.fail(*f)) return; }
        R.nontrivial(hashs(Bytes(x.errstr), code)); R.count("code-via-callback");
        R.sample("message", name_of(code) + " = '" + x.errstr + "'", 40);
    }
    R.space("C15 all error codes 1..35 produced through a caller-installed callback in the ASCII and UTF-8 dispatch", 2 * (E["MAX"] - 1));
}

// the address literals enumerated for C05, as domain parts of whole addresses
static void stage_literals(Run &R) {
    uint64_t idx = 0, total = 0; int dm = K_->default_mask();
    auto go = [&](const Bytes &l) -> bool { total++; if ((int) (idx++ % R.a.nworkers) != R.a.worker) return true; return run_one(R, (total % 5 == 0 ? "\"q q\"@" : "u@") + l, dm); };
    if (!lit::shapes(R.a.thorough, go)) return;
    R.space("C15 the enumerated address-literal texts of C05 (IPv6 shapes, octet values, longest spellings, every byte in the tag, out-of-range octets, bytes around the brackets) as domain part", total);
}
static void stage_random(Run &R) {
    rc_run(R, "C15 diagnostics truthful on generated addresses", 4.0, [&](Src &s) -> std::optional<Failure> {
        int mask = s.chance(1, 2) ? K_->default_mask() : (int) s.pick(2048);
        Bytes a = gen_address(s, K_->T);
        return check_one(R, a, mask);
    });
}
// one-edit mutations of the corpus and of addresses that produce each code
static void stage_targets(Run &R) {
    std::vector<Bytes> seeds = corpus_lines(R.a.datadir);
    for (const char *x : {"", "@b.com", "a@", "a", "\x80@b.com", "a b@c.com", "a\x01@c.com", "a\"b@c.com", "\"a@c.com", "a..b@c.com", ".a@c.com", "a.@c.com",
                          "\"a b c\"@d.com", "\"a\rb\"@d.com", "\xD0@d.com", "a@" , "a@-b.com", "a@b-.com", "a@b..com", "a@.b.com", "a@b_c.com", "a@1.2", "a@b", "a@b.zzunlisted", "a@[1.2.3]", "a@[1.2.3.4",
                          "a@x.abarth", "a@x.ru", "a@x.com", "a@x.name", "a@x.arpa", "a@x.aero", "a@example.com", "a@\xE2\x99\xA5.com", "a@\xD0\xBF.\xD1\x80\xD1\x84", "a@b.c.", "a@b.com.", "a@localhost.", "a@com.", "a@1_2.3_4", "a@192_168.0_1", "a@_", "a@a_b.com", "a@_a.com", "a@a_.c_m", "a@1_2", "+x@\xC2\xAD", "a@\xE2\x80\x8B", "a@\xC2\xAD.com", "a@b.\xC2\xAD", "a@\xC2\xAD\xC2\xAD"})
        seeds.push_back(x);
    seeds.push_back(Bytes("a@") + Bytes(64, 'l') + ".com"); seeds.push_back(Bytes("a@") + Bytes(63, 'l') + "." + Bytes(63, 'm') + "." + Bytes(63, 'n') + "." + Bytes(63, 'o') + ".com");
    seeds.push_back(Bytes(65, 'a') + "@b.com");
    uint64_t i = 0; int masks[] = {K_->default_mask(), 0, 0x7ff};
    for (const Bytes &sd : seeds) {
        if ((int) (i++ % R.a.nworkers) != R.a.worker) continue;
        for (int mk : masks) if (!run_one(R, sd, mk)) return;
        for (size_t pos = 0; pos <= sd.size() && pos < 80; pos++) for (unsigned char c : {(unsigned char) '.', (unsigned char) '"', (unsigned char) '@', (unsigned char) ' ', (unsigned char) '-', (unsigned char) 0x80, (unsigned char) '\\', (unsigned char) '[', (unsigned char) 0x01}) {
            Bytes m = sd; m.insert(m.begin() + pos, (char) c); if (!run_one(R, m, masks[0])) return;
            if (pos < sd.size()) { Bytes r = sd; r[pos] = (char) c; if (!run_one(R, r, masks[1])) return; }
        }
        for (size_t pos = 0; pos < sd.size() && pos < 80; pos++) { Bytes dl = sd; dl.erase(dl.begin() + pos); if (!run_one(R, dl, masks[0])) return; }
    }
}

#ifndef VF_FUZZ
int main(int argc, char **argv) {
    int rc = std_main(argc, argv, "C15", {{"setup", stage_setup}, {"codes", stage_codes}, {"random", stage_random}, {"literals", stage_literals}, {"targets", stage_targets}},
        [](Run &R, const Case &c) -> std::optional<Failure> {
            int kind = (int) c.geti("kind");
            if (kind == 1) return check_setup(R, (int) c.geti("raw"), c.getb("prev"), (int) c.geti("mode0", 1));
            if (kind == 2) { Run R2; R2.a = R.a; stage_codes(R2); if (R2.failed()) return R2.failures[0]; return std::nullopt; }
            return check_one(R, c.getb("addr"), (int) c.geti("mask"));
        }, [] { return g_case; },
        [](Run &R) { KD_ = K_ = new Core(&dflt_api); KU_ = new Core(&o001_api); K k(K_->A); for (const char *n : CODES) E[n] = k(std::string("EEAV_") + n); E["MAX"] = k("EEAV_MAX"); return KD_->init(R.a.datadir) && KU_->init(R.a.datadir); }, [] { delete KD_; delete KU_; });
    return rc;
}
#else
VF_FUZZ_TARGET("C15", [](Run &R) { KD_ = K_ = new Core(&dflt_api); KU_ = new Core(&o001_api); K k(K_->A); for (const char *n : CODES) E[n] = k(std::string("EEAV_") + n); E["MAX"] = k("EEAV_MAX"); return KD_->init(R.a.datadir) && KU_->init(R.a.datadir); },
    [](Run &R, const uint8_t *d, size_t n) -> std::optional<Failure> {
        if (n < 2) return std::nullopt;
        int mask = (d[n - 1] | (d[n - 2] << 8)) % 2048; if (d[n - 1] & 0x80) mask = K_->default_mask();
        Bytes a = fuzz_bytes(d, n - 2); R.sample("fuzz", show(a.substr(0, 80)), 4);
        return check_one(R, a, mask); })
#endif
