// C08 — allow_tld / tld_check policy: acceptance iff the TLD class bit is allowed.
// Complete enumeration of all 2^11 values of bits 0-10 of allow_tld against
// (a) a caller-installed callback returning each class, 0 and every negative code,
// (b) real addresses of every class the shipped table has, reserved names, unlisted
// TLD, non-FQDN, literals.  Oracle: the policy formula with the class<->bit pairing
// taken by *name* from the documented EAV_TLD_* / TLD_TYPE_* / EEAV_TLD_* constants.
#include "../harness/rc_glue.hpp"
#include "../harness/gen.hpp"
#include "../harness/tldutil.hpp"

using namespace vf;
extern "C" const vapi dflt_api, extra_api;
static const vapi *A = &dflt_api;
static const vapi *VAR2[2] = {&dflt_api, &extra_api};   // the policy must not depend on EAV_EXTRA
static TailBuf TB(4096);
static Consts *C;
static Tlds T;
static std::string g_case;

struct Want { int ret, errcode; };

// kind: 0 = callback(rc), 1 = real address
static std::optional<Failure> check_cb(Run &R, int mode, int tld, int rc, int mask) {
    Case cs; cs.i("kind", 0).i("mode", mode).i("tld", tld).i("rc", rc).i("mask", mask); g_case = cs.str();
    Obj o(A);
    if (o.configure(mode, tld, mask) != 0) return Failure{"setup-failed", cs.str(), "eav_setup failed"};
    A->obj_install_cb(o.p, rc);
    v_outcome out = o.is_email_tail(TB, "a@b.c"); R.eval();
    Want w;
    if (rc == 0) w = {1, C->E_NO_ERROR};
    else if (rc < 0) w = {0, -rc};
    else { int i = -1; for (int k = 0; k < 9; k++) if (C->tld_type[k] == rc) i = k; if (i < 0) return std::nullopt; bool ok = (mask & C->bit[i]) != 0; w = {ok ? 1 : 0, ok ? C->E_NO_ERROR : C->eeav_tld[i]}; }
    if (rc >= 1 && mask != 0 && (mask & 0x7ff) != 0x7ff) R.nontrivial(hashs(cs.str()));
    R.count(rc == 0 ? "cb-rc0" : rc < 0 ? "cb-negative" : "cb-class");
    if (out.ret != w.ret || out.errcode != w.errcode)
        return Failure{"policy-callback", cs.str(), std::string("mode ") + ref::MODE_NAME[mode] + " callback result rc=" + std::to_string(rc) + " allow_tld=0x" + [&] { char t[16]; snprintf(t, sizeof t, "%x", mask); return std::string(t); }() +
                       ": expected ret=" + std::to_string(w.ret) + " errcode=" + std::to_string(w.errcode) + ", got " + outcome_str(out)};
    return std::nullopt;
}

// class index of a real address by the oracles: 0..8 class, -1 unlisted, -2 not fqdn, -3 literal,
// -8 root-dotted name: the listed properties define the TLD class of names without root dot only (C09), so no class
// is asserted; what is asserted is that the policy is applied to whatever class the record reports and that the
// answer is the same in the three ASCII modes and in both builds
static int oracle_class(const Bytes &addr) {
    Bytes d = addr.substr(addr.rfind('@') + 1);
    if (d[0] == '[') return -3;
    Bytes af = d; if (!ref::pure_ascii(d)) { ToAscii t = to_ascii(d); if (t.rc != IDN2_OK) return -9; af = t.out; }
    if (!af.empty() && af.back() == '.') return -8;
    if (ref::reserved(af)) return 7;
    std::vector<Bytes> l = ref::split_labels(af);
    if (l.size() < 2) return -2;
    const Bytes *c = T.puny.find(l.back());
    return c ? C->idx(*c) : -1;
}

static std::optional<Failure> check_real(Run &R, Obj &o, int mode, int tld, const Bytes &addr, int mask, int build = 0) {
    const vapi *A = VAR2[build];
    Case cs; cs.i("kind", 1).i("mode", mode).i("tld", tld).b("addr", addr).i("mask", mask).i("build", build); g_case = cs.str();
    int k = oracle_class(addr);
    if (k == -9) return std::nullopt;
    A->obj_set_allow(o.p, mask);
    v_outcome out = o.is_email_tail(TB, addr); R.eval();
    Want w;
    if (k == -8 && tld) {
        static Obj *REF[2] = {nullptr, nullptr};   // default build: mode 822 and mode 6531, TLD checking on
        for (int i = 0; i < 2; i++) if (!REF[i]) { REF[i] = new Obj(VAR2[0]); REF[i]->configure(i ? 3 : 0, 1); }
        Obj *r = REF[mode == 3]; VAR2[0]->obj_set_allow(r->p, mask); v_outcome ro = r->is_email_tail(TB, addr); R.eval();
        char t[16]; snprintf(t, sizeof t, "%x", mask);
        std::string where = std::string(build ? "[EAV_EXTRA build] " : "") + "mode " + ref::MODE_NAME[mode] + " tld_check=1 allow_tld=0x" + t + " root-dotted address '" + show(addr) + "': ";
        R.count("real-root-dotted");
        if (out.ret != ro.ret || out.errcode != ro.errcode || out.rc != ro.rc)
            return Failure{"policy-real", cs.str(), where + outcome_str(out) + " but the default build in mode " + (mode == 3 ? "6531" : "822") + " -> " + outcome_str(ro) + " (same domain, same mask)"};
        if (out.rc > 0) { int i = -1; for (int q = 0; q < 9; q++) if (C->tld_type[q] == out.rc) i = q;
            if (i < 0 || out.ret != ((mask & C->bit[i]) != 0) || out.errcode != (out.ret ? C->E_NO_ERROR : C->eeav_tld[i])) return Failure{"policy-real", cs.str(), where + outcome_str(out) + ": the decision does not follow the bit of the class the record reports"}; }
        else if (out.ret != 0 || out.errcode != -out.rc) return Failure{"policy-real", cs.str(), where + outcome_str(out) + ": accepted without a TLD class although TLD checking is on"};
        return std::nullopt;
    }
    if (!tld || k == -3 || k == -8) w = {1, C->E_NO_ERROR};
    else if (k == -1) w = {0, C->E_TLD_INVALID};
    else if (k == -2) w = {0, C->E_NOT_FQDN};
    else { bool ok = (mask & C->bit[k]) != 0; w = {ok ? 1 : 0, ok ? C->E_NO_ERROR : C->eeav_tld[k]}; }
    if (tld && k >= 0 && mask != 0 && (mask & 0x7ff) != 0x7ff) R.nontrivial(hashs(cs.str()));
    R.count(!tld ? "real-tld-off" : k >= 0 ? std::string("real-class-") + CLASS_NAMES[k] : k == -1 ? "real-unlisted" : k == -2 ? "real-not-fqdn" : "real-literal");
    if (out.ret != w.ret || out.errcode != w.errcode) {
        char t[16]; snprintf(t, sizeof t, "%x", mask);
        return Failure{"policy-real", cs.str(), std::string(build ? "[EAV_EXTRA build] " : "") + "mode " + ref::MODE_NAME[mode] + " tld_check=" + std::to_string(tld) + " allow_tld=0x" + t + " address '" + show(addr) +
                       "': expected ret=" + std::to_string(w.ret) + " errcode=" + std::to_string(w.errcode) + ", got " + outcome_str(out)};
    }
    return std::nullopt;
}

static std::vector<Bytes> real_addresses() {
    std::vector<Bytes> v;
    // one (two where available) table row per class, chosen from the CSV at run time
    std::map<Bytes, int> seen;
    for (auto &r : T.puny.rows) if (seen[r.cls]++ < 2) v.push_back("u@sub." + r.domain);
    for (const char *d : {"example.com", "a.test", "localhost", "x.y.onion", "invalid", "b.example.org", "host.zzunlisted", "a.b.notatld", "single", "mailhost",
                          "[1.2.3.4]", "[IPv6:::1]", "[IPv6:2001:db8::1:2]", "[255.0.0.1]", "EXAMPLE.NET", "Sub.COM"})
        v.push_back(Bytes("u@") + d);
    if (!T.idn_u.empty()) { v.push_back("u@x." + T.idn_u[0]); v.push_back("u@x." + T.idn_a[0]); }
    // IDNA full-stop look-alikes as the only separators, fullwidth spellings of reserved names, an upper-case A-label TLD
    for (const char *d : {"iana\xE3\x80\x82org", "\xD0\xBF\xD0\xBE\xD1\x87\xD1\x82\xD0\xB0\xE3\x80\x82\xD1\x80\xD1\x84", "mail\xEF\xBC\x8Eru", "a\xEF\xBD\xA1" "b\xEF\xBD\xA1" "com",
                          "mail.\xEF\xBD\x8C\xEF\xBD\x8F\xEF\xBD\x83\xEF\xBD\x81\xEF\xBD\x8C\xEF\xBD\x88\xEF\xBD\x8F\xEF\xBD\x93\xEF\xBD\x94", "\xEF\xBD\x85\xEF\xBD\x98\xEF\xBD\x81\xEF\xBD\x8D\xEF\xBD\x90\xEF\xBD\x8C\xEF\xBD\x85.com",
                          "Example.COM", "www.eXample.Org", "x.XN--P1AI", "4.3.2.1.in-addr.arpa", "example.test", "mail.example.invalid", "EXAMPLE.LocalHost", "example.example", "a.b.example.onion",
                          "example.example.com", "www.example.cdn.example.net", "example.com.example.org", "home.com", "example.arpa", "example.com.", "host.localhost.", "www.test.", "iana.org.", "EXAMPLE.ORG.", "x.onion.", "localhost.", "a.ru."})
        v.push_back(Bytes("u@") + d);
    return v;
}

static void stage_callback(Run &R) {
    std::vector<int> rcs; for (int r = -35; r <= 9; r++) rcs.push_back(r);
    uint64_t idx = 0, total = 0;
    for (int mode = 0; mode < 4; mode++) for (int tld = 0; tld < 2; tld++) for (int rc : rcs) {
        total += 2048;
        if ((int) (idx++ % R.a.nworkers) != R.a.worker) continue;
        for (int mask = 0; mask < 2048; mask++) { auto f = check_cb(R, mode, tld, rc, mask); if (f && !R.fail(*f)) return; }
        R.sample("callback", "mode " + std::string(ref::MODE_NAME[mode]) + " tld=" + std::to_string(tld) + " rc=" + std::to_string(rc) + " x all 2048 masks", 4);
    }
    R.space("C08 callback: 4 modes x tld_check {0,1} x result codes {-35..9} x all 2048 values of allow_tld bits 0-10", total);
}

static void stage_real(Run &R) {
    std::vector<Bytes> addrs = real_addresses();
    uint64_t idx = 0, total = 0;
    for (int build = 0; build < 2; build++) for (int mode = 0; mode < 4; mode++) for (int tld = 0; tld < 2; tld++) for (const Bytes &a : addrs) {
        if (mode < 3 && !ref::pure_ascii(a)) continue;
        total += 2048;
        if ((int) (idx++ % R.a.nworkers) != R.a.worker) continue;
        Obj o(VAR2[build]); if (o.configure(mode, tld) != 0) { R.fail(Failure{"setup-failed", "", "eav_setup failed"}); return; }
        for (int mask = 0; mask < 2048; mask++) { auto f = check_real(R, o, mode, tld, a, mask, build); if (f && !R.fail(*f)) return; }
        if (build) continue;
        // bits above 10 must not matter either
        for (int hi : {1 << 11, 1 << 15, 1 << 30, (int) 0x80000000u}) for (int mask : {0, 0x7ff, 0x2a8}) { auto f = check_real(R, o, mode, tld, a, mask | hi); if (f) { f->casestr = g_case; if (!R.fail(*f)) return; } }
        R.sample("real", std::string("mode ") + ref::MODE_NAME[mode] + " tld=" + std::to_string(tld) + " " + show(a) + " x all 2048 masks", 6);
    }
    R.space("C08 real addresses (" + std::to_string(addrs.size()) + ": two rows per table class, reserved, unlisted, non-FQDN, literals) x 4 modes x tld_check {0,1} x all 2048 masks x {default, EAV_EXTRA} build", total);
}

static std::optional<Failure> check_defaults(Run &R) {
    g_case = "kind=2";
    K k(A);
    for (int prefill : {0x00, 0xff, 0x5a}) {
        Obj o(A, prefill);
        int rfc, tld, allow; A->obj_get(o.p, &rfc, &tld, &allow); R.eval();
        int want = k("EAV_TLD_COUNTRY_CODE") | k("EAV_TLD_GENERIC") | k("EAV_TLD_GENERIC_RESTRICTED") | k("EAV_TLD_INFRASTRUCTURE") | k("EAV_TLD_SPONSORED") | k("EAV_TLD_SPECIAL");
        if (rfc != k("EAV_RFC_6531") || tld != 1 || allow != want)
            return Failure{"init-defaults", "kind=2", "eav_init fields: rfc=" + std::to_string(rfc) + " tld_check=" + std::to_string(tld) + " allow_tld=" + std::to_string(allow) + ", documented: 6531, on, " + std::to_string(want)};
        if (A->obj_setup(o.p) != 0) return Failure{"init-defaults", "kind=2", "eav_setup after eav_init failed"};
        struct { const char *a; int ret; const char *why; } beh[] = {
            {"\xD0\x96@sub.com", 1, "mode 6531: UTF-8 local part accepted"}, {"a@b", 0, "TLD checking on: non-FQDN rejected"},
            {"a@example.com", 1, "special allowed"}, {"a@x.com", 1, "generic allowed"}, {"a@x.ru", 1, "country-code allowed"}, {"a@x.arpa", 1, "infrastructure allowed"},
            {"a@x.aero", 1, "sponsored allowed"}, {"a@x.name", 1, "generic-restricted allowed"}, {"a@x.abarth", 0, "not-assigned not allowed"}, {"a@x.zzunlisted", 0, "unlisted rejected"}};
        for (auto &b : beh) {
            // expectation is re-derived from the table so that a data update cannot make this stale
            int kc = oracle_class(b.a); int ret = b.ret;
            if (kc >= 0) ret = (want & C->bit[kc]) != 0;
            v_outcome out = o.is_email_tail(TB, b.a); R.eval();
            R.nontrivial(hashs(Bytes(b.a), prefill));
            if (out.ret != ret) return Failure{"init-defaults", "kind=2", std::string("default-initialised object on '") + show(b.a) + "' (" + b.why + "): " + outcome_str(out)};
        }
    }
    R.count("defaults-checked");
    return std::nullopt;
}
static void stage_defaults(Run &R) { auto f = check_defaults(R); if (f) R.fail(*f); R.sample("defaults", "eav_init fields + behaviour on 10 addresses x 3 pre-fills of the raw block"); }

static std::optional<Failure> replay(Run &R, const Case &c) {
    int kind = (int) c.geti("kind");
    if (kind == 0) return check_cb(R, (int) c.geti("mode"), (int) c.geti("tld"), (int) c.geti("rc"), (int) c.geti("mask"));
    if (kind == 2) return check_defaults(R);
    int build = (int) c.geti("build", 0);
    Obj o(VAR2[build]); if (o.configure((int) c.geti("mode"), (int) c.geti("tld")) != 0) return Failure{"setup-failed", "", "eav_setup failed"};
    return check_real(R, o, (int) c.geti("mode"), (int) c.geti("tld"), c.getb("addr"), (int) c.geti("mask"), build);
}

int main(int argc, char **argv) {
    return std_main(argc, argv, "C08",
        {{"callback", stage_callback}, {"real", stage_real}, {"defaults", stage_defaults}},
        replay, [] { return g_case; },
        [](Run &R) { C = new Consts(A); return T.load(R.a.datadir); },
        [] { delete C; });
}
