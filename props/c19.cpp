// C19 — IDN-library failures are contained: rejected with the library's message, no leak,
// and the next validation behaves as if the failure had not happened.
// The `fault` variant has its reference to idn2_to_ascii_8z redirected (objcopy
// --redefine-sym) to vfault_to_ascii_8z below, which follows a generated fault schedule
// and otherwise calls the real converter.  Oracles: per-step expectations (faulted call:
// IDN error code, injected idn_rc, idn2_strerror text, no flag; other calls: outcome of a
// fresh object without faults), ASan (double free) and LSan (leak) after every run.
#include "../harness/rc_glue.hpp"
#include "../harness/addrcore.hpp"

using namespace vf;
extern "C" const vapi fault_api, xfault_api;
extern "C" int __lsan_do_recoverable_leak_check(void);
static const vapi *A = &fault_api;   // switched to the EAV_EXTRA fault build for half of the runs
static const vapi *BUILD[2] = {&fault_api, &xfault_api};
static std::string g_case;

struct Fault { int code, buf; };
static std::map<long, Fault> g_sched; static long g_conv = 0; static bool g_hit = false; static bool g_enabled = false; static long g_total_conv = 0;
static int g_real_rc = 0; static long g_real_n = 0;   // return code of the most recent conversion the real library made, and how many it made

extern "C" int vfault_to_ascii_8z(const char *in, char **out, int flags) {
    g_total_conv++;
    if (g_enabled) {
        long n = g_conv++;
        auto it = g_sched.find(n);
        if (it != g_sched.end()) {
            g_hit = true;
            if (it->second.buf) { char *b = (char *) malloc(16); strcpy(b, "injected.buffer"); *out = b; }
            return it->second.code;
        }
    }
    g_real_rc = idn2_to_ascii_8z(in, out, flags); g_real_n++;
    return g_real_rc;
}

static const int CODES[] = {IDN2_MALLOC, IDN2_NO_CODESET, IDN2_ICONV_FAIL, IDN2_ENCODING_ERROR, IDN2_NFC, IDN2_PUNYCODE_BAD_INPUT, IDN2_PUNYCODE_BIG_OUTPUT, IDN2_PUNYCODE_OVERFLOW,
    IDN2_TOO_BIG_DOMAIN, IDN2_TOO_BIG_LABEL, IDN2_INVALID_ALABEL, IDN2_UALABEL_MISMATCH, IDN2_INVALID_FLAGS, IDN2_NOT_NFC, IDN2_2HYPHEN, IDN2_HYPHEN_STARTEND, IDN2_LEADING_COMBINING,
    IDN2_DISALLOWED, IDN2_CONTEXTJ, IDN2_CONTEXTJ_NO_RULE, IDN2_CONTEXTO, IDN2_CONTEXTO_NO_RULE, IDN2_UNASSIGNED, IDN2_BIDI, IDN2_DOT_IN_LABEL, IDN2_INVALID_TRANSITIONAL,
    IDN2_INVALID_NONTRANSITIONAL, IDN2_ALABEL_ROUNDTRIP_FAILED, -999, 7, 1, -1};
static const int NCODES = sizeof CODES / sizeof CODES[0];

static std::string mklong(size_t n, const char *unit) { std::string s = "a@"; while (s.size() < n) { s += unit; if (s.size() % 50 > 44) s += '.'; } if (s.back() == '.') s.back() = 'a'; s += ".com"; return s; }
static const std::string L1 = mklong(1017, "a"), L2 = mklong(1018, "a"), L3 = mklong(1494, "b"), L4 = mklong(4994, "c"), L5 = mklong(1400, "\xD0\xB6");
static const char *LONG1023 = L1.c_str(), *LONG1024 = L2.c_str(), *LONG1500 = L3.c_str(), *LONG5000 = L4.c_str(), *LONGCYR = L5.c_str();
static const char *POOL[] = {"\xD0\xB8\xD0\xB2\xD0\xB0\xD0\xBD@\xD0\xBF\xD0\xBE\xD1\x87\xD1\x82\xD0\xB0.\xD1\x80\xD1\x84", "user@example.com", "a@sub.domain.org", "x@\xE5\xBE\xAE\xE5\x8D\x9A.\xE5\xBE\xAE\xE5\x8D\x9A",
    "bad@\xE2\x99\xA5.de", "a@[1.2.3.4]", "a..b@c.com", "a@b", "a@x.zzunlisted", "a@-b.com", "\"q q\"@mail.ru", "a@[IPv6:::1]", "a@xn--p1ai.xn--p1ai", "a@b.abarth", "noat", "\xFF@b.com", "user@ab--cd.com", "u@r3---sn-abc.example.org", "u@xn--abc-.example.com", "x@a\xE2\x80\x8C" "b.example.com", "x@\xD9\x86\xD8\xA7\xD9\x85\xD9\x87\xE2\x80\x8C\xD8\xA7\xDB\x8C.com", "x@a\xE2\x80\x8D" "b.com", LONG1023, LONG1024, LONG1500, LONG5000, LONGCYR};
static const int NPOOL = sizeof POOL / sizeof POOL[0];

// allow: index into MASKS (-1 = leave the eav_init default); bits 0 and 1 are not class bits and must not matter
static const int MASKS[] = {0x7ff, 0x7fe, 0x002, 0x7fd, 0x001};
struct Step { int mode, tld, addr, allow = -1; };
struct RunSpec { std::vector<Step> steps; std::map<long, Fault> faults; };

static int g_build = 0;
static std::string enc(const RunSpec &r) {
    std::string s = "build=" + std::to_string(g_build) + " steps=";
    for (size_t i = 0; i < r.steps.size(); i++) { if (i) s += ","; s += std::to_string(r.steps[i].mode) + ":" + std::to_string(r.steps[i].tld) + ":" + std::to_string(r.steps[i].addr) + ":" + std::to_string(r.steps[i].allow); }
    s += " faults=";
    bool first = true;
    for (auto &f : r.faults) { if (!first) s += ","; first = false; s += std::to_string(f.first) + ":" + std::to_string(f.second.code) + ":" + std::to_string(f.second.buf); }
    if (r.faults.empty()) s += "-";
    return s;
}
static RunSpec dec(const std::string &c) {
    RunSpec r; Case cs = Case::parse(c); g_build = (int) cs.geti("build", 0); A = BUILD[g_build];
    auto split = [](const std::string &s, char d) { std::vector<std::string> v; std::string t; std::istringstream is(s); while (std::getline(is, t, d)) v.push_back(t); return v; };
    for (auto &t : split(cs.raw("steps"), ',')) { auto p = split(t, ':'); if (p.size() >= 3) { Step st; st.mode = atoi(p[0].c_str()); st.tld = atoi(p[1].c_str()); st.addr = atoi(p[2].c_str()); st.allow = p.size() > 3 ? atoi(p[3].c_str()) : -1; r.steps.push_back(st); } }
    for (auto &t : split(cs.raw("faults"), ',')) { auto p = split(t, ':'); if (p.size() == 3) r.faults[atol(p[0].c_str())] = {atoi(p[1].c_str()), atoi(p[2].c_str())}; }
    return r;
}

static std::map<int, v_outcome> g_fresh;
static const v_outcome &fresh(int mode, int tld, int addr, int allow = -1) {
    int key = (((g_build * 4 + mode) * 2 + tld) * 64 + addr) * 8 + (allow + 1);
    auto it = g_fresh.find(key); if (it != g_fresh.end()) return it->second;
    bool en = g_enabled; g_enabled = false;
    Obj o(A); o.configure(mode, tld, allow < 0 ? INT_MIN : MASKS[allow]); v_outcome x = o.is_email(POOL[addr]);
    g_enabled = en;
    return g_fresh[key] = x;
}
static bool eq(const v_outcome &x, const v_outcome &y) {
    return x.ret == y.ret && x.errcode == y.errcode && x.rc == y.rc && x.idn_rc == y.idn_rc && x.is_ipv4 == y.is_ipv4 && x.is_ipv6 == y.is_ipv6 && x.is_domain == y.is_domain &&
           x.errstr_null == y.errstr_null && strcmp(x.errstr, y.errstr) == 0;
}

static std::optional<Failure> run_spec(Run &R, const RunSpec &spec) {
    g_case = enc(spec); K k(A);
    int E_IDN = k("EEAV_IDN_ERROR");
    for (auto &s : spec.steps) fresh(s.mode, s.tld, s.addr, s.allow); // fill the reference cache outside the faulted run
    g_sched = spec.faults; g_conv = 0; g_enabled = true;
    std::optional<Failure> fail;
    bool fault_seen = false, nontriv = false; int nfault = 0;
    {
        Obj o(A, 0xA5);
        int defmask, dummy1, dummy2; A->obj_get(o.p, &dummy1, &dummy2, &defmask);
        int cur_mode = -1;
        for (size_t i = 0; i < spec.steps.size() && !fail; i++) {
            const Step &s = spec.steps[i];
            if (s.mode != cur_mode) { A->obj_set_mode(o.p, s.mode); if (A->obj_setup(o.p) != 0) { fail = Failure{"setup-failed", g_case, "eav_setup failed"}; break; } cur_mode = s.mode; }
            A->obj_set_tld(o.p, s.tld);
            if (s.allow >= 0) A->obj_set_allow(o.p, MASKS[s.allow]); else A->obj_set_allow(o.p, defmask);
            g_hit = false; long real_before = g_real_n;
            v_outcome x = o.is_email(POOL[s.addr]); R.eval();
            std::string where = "step " + std::to_string(i) + " (mode " + ref::MODE_NAME[s.mode] + ", tld_check=" + std::to_string(s.tld) + ", '" + show(POOL[s.addr]) + "'): " + outcome_str(x);
            if (g_hit) {
                auto it = g_sched.find(g_conv - 1); int code = it->second.code; nfault++; fault_seen = true;
                const char *msg = idn2_strerror(code);
                if (x.ret != 0 || x.errcode != E_IDN || x.rc != -E_IDN) fail = Failure{"fault-not-rejected-as-idn-error", g_case, where + ": converter returned " + std::to_string(code) + (it->second.buf ? " with" : " without") + " an output buffer"};
                else if (x.idn_rc != code) fail = Failure{"fault-wrong-idn-rc", g_case, where + ": injected code " + std::to_string(code)};
                else if (x.errstr_null || strcmp(x.errstr, msg ? msg : "") != 0) fail = Failure{"fault-wrong-message", g_case, where + ": the IDN library's message for " + std::to_string(code) + " is '" + (msg ? msg : "(null)") + "'"};
                else if (x.is_domain || x.is_ipv4 || x.is_ipv6) fail = Failure{"fault-treated-as-domain", g_case, where + ": a flag is set after a converter failure"};
            } else {
                if (fault_seen) nontriv = true;
                // a failure the real library reported by itself is judged like an injected one
                if (g_real_n > real_before && g_real_rc != IDN2_OK) {
                    const char *msg = idn2_strerror(g_real_rc); R.count("natural-idn-failure");
                    if (x.ret != 0 || x.errcode != E_IDN || x.rc != -E_IDN || x.idn_rc != g_real_rc || x.errstr_null || strcmp(x.errstr, msg ? msg : "") != 0 || x.is_domain || x.is_ipv4 || x.is_ipv6)
                        fail = Failure{"natural-failure-not-rejected-as-idn-error", g_case, where + ": the IDN library itself returned " + std::to_string(g_real_rc) + " ('" + (msg ? msg : "(null)") + "') for this domain"};
                }
                const v_outcome &w = fresh(s.mode, s.tld, s.addr, s.allow);
                if (!eq(x, w)) fail = Failure{"failure-not-contained", g_case, where + " but a fresh object without faults gives " + outcome_str(w) + " (" + std::to_string(nfault) + " fault(s) earlier in the run)"};
            }
        }
        // an ErrStr after the run still describes the last call (covered by C13); free everything
    }
    g_enabled = false; g_sched.clear();
    if (!fail && __lsan_do_recoverable_leak_check() != 0) fail = Failure{"leak-after-fault", g_case, "LeakSanitizer reports unreleased memory after eav_free at the end of this run"};
    if (nontriv) R.nontrivial(hashs(g_case));
    R.count(nfault == 0 ? "runs-without-fault" : nfault == 1 ? "runs-single-fault" : "runs-multi-fault");
    return fail;
}

static RunSpec template_run(int kind, int len) {
    RunSpec r;
    for (int i = 0; i < len; i++) {
        Step s;
        if (kind == 0) { s.mode = 3; s.tld = 1; s.addr = i % 2 ? 3 : 0; }                                 // only IDN addresses in mode 6531
        else if (kind == 1) { s.mode = (i % 3 == 2) ? (i % 4) % 3 : 3; s.tld = i % 2; s.addr = (i * 5) % NPOOL; s.allow = (i % 6) - 1; } // mixed with ASCII-mode calls, all kinds of addresses, every mask
        else { s.mode = 3; s.tld = (i / 2) % 2; s.addr = (i * 7 + 1) % NPOOL; s.allow = i % 4 == 3 ? 2 : -1; }
        r.steps.push_back(s);
    }
    return r;
}
// number of converter calls a run makes without faults
static long conversions_of(const RunSpec &r) {
    long before = g_total_conv; bool en = g_enabled; g_enabled = false;
    { Obj o(A); int cm = -1; for (auto &s : r.steps) { if (s.mode != cm) { A->obj_set_mode(o.p, s.mode); A->obj_setup(o.p); cm = s.mode; } A->obj_set_tld(o.p, s.tld); if (s.allow >= 0) A->obj_set_allow(o.p, MASKS[s.allow]); o.is_email(POOL[s.addr]); } }
    g_enabled = en; return g_total_conv - before;
}

static void stage_single(Run &R) {
    uint64_t idx = 0, total = 0;
    for (int kind = 0; kind < 3; kind++) for (int len : {1, 2, 8, 50}) {
        RunSpec base = template_run(kind, len); long nconv = conversions_of(base);
        std::vector<long> pos; for (long p = 0; p < nconv; p++) if (len <= 8 || p < 3 || p >= nconv - 3 || p % 7 == 0) pos.push_back(p);
        for (int bld = 0; bld < 2; bld++) for (int c = 0; c < NCODES; c++) for (int buf = 0; buf < 2; buf++) for (long p : pos) {
            if (bld == 1 && len == 50 && (p % 3)) continue;
            total++; if ((int) (idx++ % R.a.nworkers) != R.a.worker) continue;
            g_build = bld; A = BUILD[bld];
            RunSpec r = base; r.faults[p] = {CODES[c], buf};
            auto f = run_spec(R, r); if (f && !R.fail(*f)) return;
            R.sample("single fault", enc(r), 3);
        }
    }
    R.space("C19 single fault: every idn2 return code (" + std::to_string(NCODES) + " incl. unknown/positive values) x {no buffer, buffer} x every conversion position of runs of 1, 2, 8 (all) and 50 (ends + every 7th) validations in 3 workload templates", total);
}

static void stage_random(Run &R) {
    rc_run(R, "C19 random multi-fault schedules are contained", 1.5, [&](Src &s) -> std::optional<Failure> {
        g_build = (int) s.pick(2); A = BUILD[g_build];
        RunSpec r; uint32_t n = 1 + s.pick(50);
        for (uint32_t i = 0; i < n; i++) { Step st; st.mode = s.chance(1, 4) ? (int) s.pick(3) : 3; st.tld = (int) s.pick(2); st.addr = (int) s.pick(NPOOL); st.allow = s.chance(1, 2) ? -1 : (int) s.pick(5); r.steps.push_back(st); }
        uint32_t nf = s.pick(6);
        for (uint32_t i = 0; i < nf; i++) r.faults[(long) s.pick(n)] = {CODES[s.pick(NCODES)], (int) s.pick(2)};
        R.sample("random schedule", enc(r), 3);
        return run_spec(R, r);
    });
}

int main(int argc, char **argv) {
    return std_main(argc, argv, "C19", {{"single", stage_single}, {"random", stage_random}},
        [](Run &R, const Case &c) { return run_spec(R, dec(c.str())); }, [] { return g_case; });
}
