// C13 — eav_t reuse: the outcome depends only on current settings and address, not on history.
// Stateful / model-based: operation sequences on one object; after every eav_is_email the
// observable tuple (return, errcode, errstr, result record) must equal that of a FRESH object
// given the same three settings (mode = the one confirmed by the last successful eav_setup);
// eav_errstr keeps describing the most recent eav_is_email; eav_free leaves result == NULL;
// ASan (double free / use after free) and LSan (leak) judge every history.
#include "../harness/rc_glue.hpp"
#include "../harness/addrcore.hpp"
#include "../harness/pristine.hpp"
#include <set>

using namespace vf;
extern "C" const vapi dflt_api;
extern "C" int __lsan_do_recoverable_leak_check(void);
static const vapi *A = &dflt_api;
static std::string g_case;
static Tlds T;

enum OpK { SETRFC = 'R', SETTLD = 'T', SETALLOW = 'A', SETUP = 'S', ISEMAIL = 'E', ERRSTR = 'M', FREEINIT = 'F' };
struct Op { char k; long long v; Bytes addr; };

static std::string enc(const std::vector<Op> &ops) {
    std::string s = "ops=";
    for (size_t i = 0; i < ops.size(); i++) {
        if (i) s += ";";
        s += ops[i].k;
        if (ops[i].k == ISEMAIL) s += "x" + hexs(ops[i].addr); else if (ops[i].k == SETRFC || ops[i].k == SETTLD || ops[i].k == SETALLOW) s += std::to_string(ops[i].v);
    }
    if (ops.empty()) s += "-";
    return s;
}
static std::vector<Op> dec(const std::string &c) {
    std::vector<Op> ops; std::string body = Case::parse(c).raw("ops"), t; std::istringstream is(body);
    while (std::getline(is, t, ';')) { if (t.empty() || t == "-") continue; Op o{t[0], 0, ""}; if (o.k == ISEMAIL) o.addr = unhex(t.substr(2)); else if (t.size() > 1) o.v = atoll(t.c_str() + 1); ops.push_back(o); }
    return ops;
}

static bool eq(const v_outcome &x, const v_outcome &y);
static Pristine PR;   // outcomes from a process that never validated anything before: hidden process-wide state is history too
static bool eq(const v_outcome &x, const v_outcome &y) {
    return x.ret == y.ret && x.errcode == y.errcode && x.rc == y.rc && x.idn_rc == y.idn_rc && x.is_ipv4 == y.is_ipv4 && x.is_ipv6 == y.is_ipv6 && x.is_domain == y.is_domain &&
           x.has_result == y.has_result && x.errstr_null == y.errstr_null && strcmp(x.errstr, y.errstr) == 0;
}
static std::map<std::string, v_outcome> g_cache;
static v_outcome fresh(int mode, int tld, int allow, const Bytes &addr, bool nocache = false) {
    std::string key = std::to_string(mode) + "/" + std::to_string(tld) + "/" + std::to_string(allow) + "/" + addr;
    if (!nocache) { auto it = g_cache.find(key); if (it != g_cache.end()) return it->second; }
    Obj o(A); o.configure(mode, tld, allow); v_outcome x = o.is_email(addr);
    if (g_cache.size() > 20000) g_cache.clear();
    return g_cache[key] = x;
}

// Everything this worker process has validated so far (distinct settings+address, in order).  When an outcome differs
// from the pristine one and the current history alone does not explain it, the state was left behind by an earlier
// case of this process: the culprit is looked up here so that the reported history is self-contained and replays.
static std::vector<PItem> g_log, g_poisons;
static std::set<std::string> g_logkeys;
static void log_item(const PItem &it) {
    if (g_log.size() >= 100000) return;
    std::string key = std::to_string(it.mode) + "/" + std::to_string(it.tld) + "/" + std::to_string(it.allow) + "/" + it.addr;
    if (g_logkeys.insert(key).second) g_log.push_back(it);
}
static std::string ops_for(const std::vector<PItem> &seq) {
    K k(A); static const char *M[] = {"EAV_RFC_822", "EAV_RFC_5321", "EAV_RFC_5322", "EAV_RFC_6531"};
    std::string s = "ops=S";
    for (auto &it : seq) s += ";R" + std::to_string(k(M[it.mode])) + ";T" + std::to_string(it.tld) + ";A" + std::to_string(it.allow) + ";S;Ex" + hexs(it.addr);
    return s;
}
// returns a case string that reproduces "probe's outcome != pristine outcome pz" from a new process, or "" if none was found
static std::string self_contained(const std::vector<PItem> &hist, const PItem &probe, const v_outcome &pz, std::string *note) {
    auto differs = [&](std::vector<PItem> seq) { seq.push_back(probe); v_outcome o = PR.query_seq(seq); return !eq(o, pz); };
    if (differs(hist)) return "=";                                            // this history alone explains it
    for (auto &q : g_poisons) if (differs({q})) { *note = "after validating '" + show(q.addr) + "' earlier in the process"; return ops_for({q, probe}); }
    if (!differs(g_log)) return "";
    size_t lo = 0, hi = g_log.size();                                          // smallest prefix of the log that changes the outcome
    while (lo + 1 < hi) { size_t mid = (lo + hi) / 2; if (differs(std::vector<PItem>(g_log.begin(), g_log.begin() + mid))) hi = mid; else lo = mid; }
    PItem q = g_log[hi - 1];
    if (differs({q})) { g_poisons.push_back(q); *note = "after validating '" + show(q.addr) + "' earlier in the process"; return ops_for({q, probe}); }
    if (hi <= 300) { std::vector<PItem> seq(g_log.begin(), g_log.begin() + hi); seq.push_back(probe); *note = "after the first " + std::to_string(hi) + " validations of this process"; return ops_for(seq); }
    return "";
}

struct Stats { int isemail = 0; bool nontrivial = false; };

// runs one history; the object starts as init + (implicit) nothing.  `leakcheck`: run LSan at the end.
static std::optional<Failure> run_history(Run &R, const std::vector<Op> &ops, bool leakcheck, Stats *st = nullptr) {
    g_case = enc(ops); K k(A);
    int modeval[4] = {k("EAV_RFC_822"), k("EAV_RFC_5321"), k("EAV_RFC_5322"), k("EAV_RFC_6531")};
    std::optional<Failure> fail;
    {
        Obj o(A, 0x5A);
        // model
        int rfc_raw, tld, allow; A->obj_get(o.p, &rfc_raw, &tld, &allow);
        std::vector<PItem> hist;
        int confirmed = -1; bool have_last = false, window_failed_setup = false, changed_since_last = false; v_outcome last; memset(&last, 0, sizeof last);
        for (size_t i = 0; i < ops.size() && !fail; i++) {
            const Op &op = ops[i];
            std::string where = "op " + std::to_string(i) + " of " + g_case.substr(0, 300) + ": ";
            switch (op.k) {
            case SETRFC: A->obj_set_rfc_raw(o.p, (int) op.v); rfc_raw = (int) op.v; changed_since_last = true; break;
            case SETTLD: A->obj_set_tld(o.p, (int) op.v); tld = op.v != 0; changed_since_last = true; break;
            case SETALLOW: A->obj_set_allow(o.p, (int) op.v); allow = (int) op.v; changed_since_last = true; break;
            case SETUP: {
                int rc = A->obj_setup(o.p); R.eval();
                int m = -1; for (int j = 0; j < 4; j++) if (modeval[j] == rfc_raw) m = j;
                if (m >= 0) { if (rc != 0) fail = Failure{"setup-return", g_case, where + "eav_setup returned " + std::to_string(rc) + " for a defined mode"}; confirmed = m; }
                else { if (rc != k("EEAV_INVALID_RFC")) fail = Failure{"setup-return", g_case, where + "eav_setup returned " + std::to_string(rc) + " for rfc=" + std::to_string(rfc_raw)}; window_failed_setup = true; }
            } break;
            case ISEMAIL: {
                if (confirmed < 0) break; // precondition: a successful eav_setup since eav_init (manual)
                v_outcome x = o.is_email(op.addr); R.eval();
                v_outcome w = fresh(confirmed, tld, allow, op.addr); R.eval();
                if (!eq(x, w)) { v_outcome w2 = fresh(confirmed, tld, allow, op.addr, true); if (!eq(x, w2)) w = w2; else w = w2; }   // a stale cache entry means process-wide state: left to the pristine comparison
                if (!eq(x, w)) fail = Failure{"history-dependent-outcome", g_case, where + "eav_is_email('" + show(op.addr) + "') on the reused object -> " + outcome_str(x) + " but a fresh object with mode " +
                                              ref::MODE_NAME[confirmed] + ", tld_check=" + std::to_string(tld) + ", allow_tld=" + std::to_string(allow) + " -> " + outcome_str(w)};
                PItem item{confirmed, tld, allow, op.addr};
                if (!fail && PR.started()) {
                    v_outcome pz = PR.query(confirmed, tld, allow, op.addr); R.eval();
                    if (!eq(x, pz)) {
                        std::string note = "after this history", cs = self_contained(hist, item, pz, &note);
                        fail = Failure{"history-dependent-outcome", cs.empty() || cs == "=" ? g_case : cs, (cs.empty() || cs == "=" ? where : "last op of " + cs.substr(0, 300) + ": ") + "eav_is_email('" + show(op.addr) + "') " + note + " -> " + outcome_str(x) + " but in a process that has validated nothing before, a fresh object with mode " +
                                       ref::MODE_NAME[confirmed] + ", tld_check=" + std::to_string(tld) + ", allow_tld=" + std::to_string(allow) + " -> " + outcome_str(pz) + " (state kept outside the eav_t)"};
                    }
                }
                hist.push_back(item); log_item(item);
                if (st) { st->isemail++; if (have_last && changed_since_last) st->nontrivial = true; }
                last = x; have_last = true; window_failed_setup = false; changed_since_last = false;
            } break;
            case ERRSTR: {
                if (!have_last || window_failed_setup) break; // before any validation: unspecified; after a failed setup: C15's
                v_outcome e; A->obj_errstr(o.p, &e); R.eval();
                if (e.errstr_null != last.errstr_null || strcmp(e.errstr, last.errstr) != 0)
                    fail = Failure{"errstr-not-about-last-call", g_case, where + "eav_errstr = '" + (e.errstr_null ? "(null)" : e.errstr) + "' but the most recent eav_is_email reported '" + (last.errstr_null ? "(null)" : last.errstr) + "'"};
            } break;
            case FREEINIT: {
                A->obj_free(o.p); R.eval();
                if (!A->obj_result_null(o.p)) { fail = Failure{"result-not-null-after-free", g_case, where + "result record pointer not NULL after eav_free"}; break; }
                A->obj_init(o.p);
                A->obj_get(o.p, &rfc_raw, &tld, &allow); confirmed = -1; have_last = false; window_failed_setup = false; changed_since_last = true;
            } break;
            }
        }
    } // ~Obj: eav_free
    if (!fail && leakcheck && __lsan_do_recoverable_leak_check() != 0) fail = Failure{"leak-after-history", g_case, "LeakSanitizer reports unreleased memory after eav_free at the end of this history"};
    return fail;
}

// ---- exhaustive: all sequences over a 12-op pool, after an implicit successful eav_setup
static std::vector<Op> pool12() {
    K k(A);
    return {{SETRFC, k("EAV_RFC_5321"), ""}, {SETRFC, k("EAV_RFC_6531"), ""}, {SETRFC, 7, ""}, {SETTLD, 0, ""}, {SETALLOW, 0, ""}, {SETUP, 0, ""},
            {ISEMAIL, 0, "\xD0\xB8\xD0\xB2\xD0\xB0\xD0\xBD@\xD0\xBF\xD0\xBE\xD1\x87\xD1\x82\xD0\xB0.\xD1\x80\xD1\x84"}, {ISEMAIL, 0, "a..b@c.com"}, {ISEMAIL, 0, "a@\xE2\x99\xA5.de"}, {ISEMAIL, 0, "a@b.com"},
            {ERRSTR, 0, ""}, {FREEINIT, 0, ""}};
}
static void stage_exhaustive(Run &R) {
    std::vector<Op> P = pool12(); const int K12 = (int) P.size();
    int maxlen = R.a.thorough ? 7 : 6;
    uint64_t total = 0, idx = 0, since = 0;
    std::vector<std::vector<Op>> batch;
    auto flush = [&]() -> bool {
        if (__lsan_do_recoverable_leak_check() != 0) { // find the culprit inside the batch
            for (auto &h : batch) { auto f = run_history(R, h, true); if (f) { R.fail(*f); return false; } }
            R.fail(Failure{"leak-after-history", enc(batch.back()), "LeakSanitizer reported a leak for a batch of histories but no single history reproduces it"}); return false;
        }
        batch.clear(); return true;
    };
    std::vector<int> d(maxlen, 0);
    for (int len = 1; len <= maxlen; len++) {
        uint64_t cnt = 1; for (int i = 0; i < len; i++) cnt *= K12;
        total += cnt; std::fill(d.begin(), d.end(), 0);
        for (uint64_t n = 0; n < cnt; n++) {
            if ((int) ((idx++ / 16) % R.a.nworkers) == R.a.worker) {
                std::vector<Op> h; h.push_back({SETUP, 0, ""});
                for (int i = 0; i < len; i++) h.push_back(P[d[i]]);
                Stats st; auto f = run_history(R, h, false, &st);
                if (st.nontrivial) R.nontrivial(hashs(g_case));
                R.count(st.isemail >= 2 ? "histories-with>=2-validations" : "histories-with<2-validations");
                if (st.nontrivial) R.sample("history", g_case, 3);
                if (f && !R.fail(*f)) return;
                batch.push_back(h);
                if (++since % 4000 == 0 && !flush()) return;
            }
            for (int i = len - 1; i >= 0; i--) { if (++d[i] < K12) break; d[i] = 0; }
        }
    }
    if (!flush()) return;
    R.space("C13 all operation sequences of length 1.." + std::to_string(maxlen) + " over a 12-operation pool (3 rfc values incl. an invalid one, tld_check, allow_tld, eav_setup, 4 addresses of different outcome kinds, eav_errstr, eav_free+eav_init) after an initial eav_setup", total);
}

// leak check for a batch of histories; on a report, re-run each one alone to find the culprit
static std::optional<Failure> batch_leakcheck(Run &R, std::vector<std::vector<Op>> &batch) {
    if (__lsan_do_recoverable_leak_check() == 0) { batch.clear(); return std::nullopt; }
    std::optional<Failure> res;
    for (auto &h : batch) { auto f = run_history(R, h, true); if (f) { res = f; break; } }
    if (!res) res = Failure{"leak-after-history", enc(batch.back()), "LeakSanitizer reported a leak for a batch of histories but no single history reproduces it"};
    batch.clear();
    return res;
}

static void stage_random(Run &R) {
    std::vector<Bytes> corpus = corpus_lines(R.a.datadir);
    K k(A);
    static const long long RFCS[] = {-1, 4, 7, 2147483647LL};
    std::vector<std::vector<Op>> batch;
    std::optional<Failure> leak;   // once a leak is attributed, every further evaluation reports it: shrinking ends at once instead of chasing it
    rc_run(R, "C13 random histories up to 200 operations", 6.0, [&](Src &s) -> std::optional<Failure> {
        if (leak) return leak;
        // address pool for this history
        std::vector<Bytes> pool; uint32_t np = 2 + s.pick(12);
        for (uint32_t i = 0; i < np; i++) pool.push_back(s.chance(1, 3) ? s.of(corpus) : gen_address(s, T));
        std::vector<Op> h; h.push_back({SETUP, 0, ""});
        uint32_t n = 1 + s.pick(200);
        for (uint32_t i = 0; i < n; i++) {
            switch (s.pick(12)) {
            case 0: case 1: { static const char *M[] = {"EAV_RFC_822", "EAV_RFC_5321", "EAV_RFC_5322", "EAV_RFC_6531"}; h.push_back({SETRFC, k(M[s.pick(4)]), ""}); h.push_back({SETUP, 0, ""}); } break;
            case 2: h.push_back({SETRFC, s.chance(1, 2) ? RFCS[s.pick(4)] : (long long) k("EAV_RFC_822") + s.pick(4), ""}); break;
            case 3: h.push_back({SETTLD, (long long) s.pick(2), ""}); break;
            case 4: h.push_back({SETALLOW, (long long) s.pick(2048), ""}); break;
            case 5: h.push_back({SETUP, 0, ""}); break;
            case 6: h.push_back({ERRSTR, 0, ""}); break;
            case 7: if (s.chance(1, 3)) { h.push_back({FREEINIT, 0, ""}); if (s.chance(3, 4)) h.push_back({SETUP, 0, ""}); } else h.push_back({ERRSTR, 0, ""}); break;
            default: h.push_back({ISEMAIL, 0, s.of(pool)});
            }
        }
        Stats st; auto f = run_history(R, h, false, &st);
        if (st.nontrivial) R.nontrivial(hashs(g_case));
        R.count(h.size() > 100 ? "len>100" : h.size() > 20 ? "len21-100" : "len<=20");
        if (st.nontrivial) R.count("nontrivial-histories");
        R.sample("random history", g_case.substr(0, 400), 3);
        if (f) return f;
        batch.push_back(h);
        if (batch.size() >= 100) { leak = batch_leakcheck(R, batch); return leak; }
        return std::nullopt;
    });
    if (!R.failed()) { auto f = batch_leakcheck(R, batch); if (f) R.fail(*f); }
}

int main(int argc, char **argv) {
    return std_main(argc, argv, "C13", {{"exhaustive", stage_exhaustive}, {"random", stage_random}},
        [](Run &R, const Case &c) { return run_history(R, dec(c.str()), true); }, [] { return g_case; },
        [](Run &R) { if (!PR.start(A)) { fprintf(stderr, "cannot start the pristine helper process\n"); return false; } return T.load(R.a.datadir); }, [] { PR.stop(); });
}
