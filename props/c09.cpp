// C09 — reserved domains (RFC 2606/6761/7686) recognised exactly, whatever precedes them.
// Oracle: ref::reserved on the label list.  Observed through is_special_domain,
// is_<mode>_email(..., tld on)->rc and eav_is_email's error code with the SPECIAL
// bit cleared (all other class bits set).
#include "../harness/rc_glue.hpp"
#include "../harness/gen.hpp"
#include "../harness/tldutil.hpp"

using namespace vf;
extern "C" const vapi dflt_api, o001_api;
// two builds: the default one and LABELS_ALLOW_UNDERSCORE=ON (where '_' is a label character, so that
// 'test_1' is a valid, non-reserved last label)
static const vapi *VA[2] = {&dflt_api, &o001_api};
static TailBuf TB(4096);
static const Bytes *g_bytes;
static Obj *OBJ[2][4];
static Consts *C;
enum { SPECIAL = 7 };

static Case mkcase(const Bytes &d) { Case c; c.b("domain", d); return c; }

static std::optional<Failure> check_build(Run &R, const Bytes &d, int v) {
    const vapi *A = VA[v];
    // quantifier: valid host-name domains without root dot
    if (!ref::host_ok(d, v == 1) || d.back() == '.') { R.count("skipped-not-a-valid-host"); return std::nullopt; }
    bool want = ref::reserved(d);
    R.nontrivial(hashs(d, v));
    R.count(want ? "reserved" : "not-reserved");
    if (want) R.sample("reserved", show(d), 4); else R.sample("neighbour", show(d), 6);
    std::string bn = v ? "[LABELS_ALLOW_UNDERSCORE build] " : "";
    int sp = part0(A, TB, VP_SPECIAL, d); R.eval();
    std::vector<Bytes> labs = ref::split_labels(d);
    std::string shape = labs.size() >= 2 && labs[labs.size() - 2].size() == 7 ? "second-to-last-label-has-7-chars" : "reserved-misjudged";
    if ((sp != 0) != want)
        return Failure{shape, mkcase(d).str(), bn + "is_special_domain('" + show(d) + "') = " + std::to_string(sp) + ", reference says " + (want ? "reserved" : "not reserved")};
    Bytes addr = "x@" + d;
    for (int m = 0; m < 4; m++) {
        v_outcome o = email_direct(A, TB, m, addr, 1); R.eval();
        if (m == 3 && o.rc == -C->E_IDN) { R.count("6531-idn-error-skipped"); continue; }
        if ((o.rc == C->tld_type[SPECIAL]) != want)
            return Failure{shape, mkcase(d).str(), bn + std::string("is_") + ref::MODE_NAME[m] + "_email('x@" + show(d) + "', tld on)->rc = " + std::to_string(o.rc) + ", reference says " + (want ? "special" : "not special")};
        v_outcome e = OBJ[v][m]->is_email_tail(TB, addr); R.eval();
        bool got = e.ret == 0 && e.errcode == C->eeav_tld[SPECIAL];
        if (got != want)
            return Failure{shape, mkcase(d).str(), bn + std::string("eav_is_email mode ") + ref::MODE_NAME[m] + " with only the SPECIAL bit cleared on 'x@" + show(d) + "': " + outcome_str(e) + ", reference says " + (want ? "special" : "not special")};
    }
    return std::nullopt;
}
static std::optional<Failure> check_one(Run &R, const Bytes &d) {
    g_bytes = &d;
    if (auto f = check_build(R, d, 0)) return f;
    if (d.find('_') != Bytes::npos || (hashs(d) & 7) == 0) return check_build(R, d, 1);   // the option build: all underscore cases + a sample of the rest
    return std::nullopt;
}
static bool run_one(Run &R, const Bytes &b) { auto f = check_one(R, b); return !(f && !R.fail(*f)); }

static std::vector<Bytes> suffixes_and_neighbours() {
    std::vector<Bytes> out;
    for (const char *r : gen::RESERVED) {
        Bytes s = r; out.push_back(s);
        static const char INS[] = {'a', 'x', 's', 'e', 't', '1', '-', '.', '_'};
        for (size_t i = 0; i <= s.size(); i++) for (char c : INS) { Bytes t = s; t.insert(t.begin() + i, c); out.push_back(t); }
        for (size_t i = 0; i < s.size(); i++) { Bytes t = s; t.erase(t.begin() + i); if (!t.empty()) out.push_back(t); }
        for (size_t i = 0; i < s.size(); i++) for (char c : {'a', 'x', 'z', '0', '_'}) { Bytes t = s; if (t[i] == '.') continue; t[i] = c; out.push_back(t); }
    }
    for (const char *x : {"exampleA", "xexample.com", "example.comm", "example.co", "foo.tests", "locahost", "example.edu", "example.com.au", "test.com", "example.example", "com.example",
                          "example.test", "invalid.test", "example.onion", "example.localhost", "example.invalid", "mailbox.localhost", "examples.com", "example.org.uk", "onion.com", "tests", "local", "host"})
        out.push_back(x);
    std::sort(out.begin(), out.end()); out.erase(std::unique(out.begin(), out.end()), out.end());
    return out;
}
static Bytes casevar(const Bytes &s, int k) {
    Bytes o = s;
    for (size_t i = 0; i < o.size(); i++) if (isalpha((unsigned char) o[i])) { if (k == 1 || (k == 2 && i % 2 == 0) || (k == 3 && i % 3 == 1)) o[i] = (char) toupper((unsigned char) o[i]); }
    return o;
}
static Bytes lead(size_t n, int style) {
    static const char *WORDS[] = {"example", "invalid", "test", "localhost", "onion", "com", "mailbox"};
    if (style >= 3) { Bytes w = WORDS[(n + style) % 7]; return w; }
    Bytes l; for (size_t i = 0; i < n; i++) l += style == 0 ? 'a' : style == 1 ? char('a' + (i * 7 + n) % 26) : (i % 5 == 2 && i + 1 < n ? '-' : char('0' + (i + n) % 10));
    if (style == 2 && !l.empty() && isdigit((unsigned char) l[0])) l[0] = 'n';
    return l;
}

static void stage_lengths(Run &R) {
    std::vector<Bytes> sn = suffixes_and_neighbours();
    uint64_t total = 0, idx = 0;
    auto go = [&](const Bytes &b) -> bool { total++; if ((int) (idx++ % R.a.nworkers) != R.a.worker) return true; return run_one(R, b); };
    // bare forms (0 leading labels), all case patterns
    for (const Bytes &s : sn) for (int k = 0; k < 4; k++) if (!go(casevar(s, k))) return;
    // one leading label of every length 1..63
    for (size_t n = 1; n <= 63; n++) for (int style = 0; style < 4; style++) for (const Bytes &s : sn)
        if (!go(lead(n, style) + "." + casevar(s, (int) ((n + style) % 4)))) return;
    // two leading labels: every (l1,l2) for the reserved suffixes themselves; thorough: also all neighbours
    for (size_t a = 1; a <= 63; a++) for (size_t b = 1; b <= 63; b++) {
        if (!R.a.thorough && !(a <= 9 || b <= 9 || a == 63 || b == 63 || (a + b) % 7 == 0)) continue;
        for (const char *r : gen::RESERVED) if (!go(lead(a, 1) + "." + lead(b, (int) ((a + b) % 3)) + "." + r)) return;
        if (R.a.thorough || (a <= 8 && b <= 8)) for (size_t i = (a * 63 + b) % 11; i < sn.size(); i += 11) if (!go(lead(a, 0) + "." + lead(b, 1) + "." + sn[i])) return;
    }
    // three leading labels
    for (size_t a : {1, 7, 63}) for (size_t b : {1, 3, 7, 8, 62}) for (size_t c = 1; c <= 63; c++) for (const char *r : gen::RESERVED)
        if (!go(lead(a, 1) + "." + lead(b, 0) + "." + lead(c, 1) + "." + r)) return;
    // reserved words as leading labels under every suffix / neighbour
    for (int w = 3; w < 10; w++) for (const Bytes &s : sn) { if (!go(lead(7, w) + "." + s)) return; if (!go("a." + lead(7, w) + "." + s)) return; }
    R.space("C09 bare forms x 4 case patterns; 1 leading label of every length 1-63 x 4 fillings x all suffixes/neighbours; 2 leading labels (l1,l2) grid; 3 leading labels; reserved words as leading labels", total);
}

// every combination of two and three words of a dictionary (reserved words, their TLDs, names that look special,
// ordinary words) as the labels of a name: only the documented patterns are special, wherever else the words stand
static void stage_words(Run &R) {
    static const char *W[] = {"example", "test", "invalid", "localhost", "onion", "com", "net", "org", "arpa", "home", "local", "corp", "lan", "internal", "localdomain", "mail", "www",
                              "in-addr", "ip6", "examples", "exampl", "tests", "de", "ru", "info", "museum", "a", "x7", "my-example", "example-1", "EXAMPLE", "Test", "xn--p1ai", "co", "comm", "ORG"};
    const size_t N = sizeof W / sizeof W[0];
    uint64_t total = 0, idx = 0;
    auto go = [&](const Bytes &b) -> bool { total++; if ((int) (idx++ % R.a.nworkers) != R.a.worker) return true; return run_one(R, b); };
    for (size_t a = 0; a < N; a++) for (size_t b = 0; b < N; b++) {
        if (!go(Bytes(W[a]) + "." + W[b])) return;
        for (size_t c = 0; c < N; c++) if (!go(Bytes(W[a]) + "." + W[b] + "." + W[c])) return;
    }
    // four labels: the reserved second-level name repeated / shadowed further left
    for (size_t a = 0; a < 12; a++) for (size_t b = 0; b < 12; b++) for (size_t c = 0; c < 12; c++) for (size_t d = 0; d < 9; d++) if (!go(Bytes(W[a]) + "." + W[b] + "." + W[c] + "." + W[d])) return;
    R.space("C09 all 2- and 3-label names over a 36-word dictionary (reserved words, their TLDs, look-alikes, ordinary words, case variants) and 4-label names over its first 12 x 12 x 12 x 9 words", total);
}

static void stage_random(Run &R) {
    std::vector<Bytes> sn = suffixes_and_neighbours();
    rc_run(R, "C09 generated domains: special iff reserved suffix", 2.0, [&](Src &s) -> std::optional<Failure> {
        Bytes d; uint32_t nl = s.pick(4);
        for (uint32_t i = 0; i < nl; i++) { d += gen::randcase(s, gen::label(s, 1 + s.pick(63))); d += '.'; }
        d += gen::randcase(s, s.of(sn));
        return check_one(R, d);
    });
}

#ifndef VF_FUZZ
int main(int argc, char **argv) {
    return std_main(argc, argv, "C09",
        {{"lengths", stage_lengths}, {"words", stage_words}, {"random", stage_random}},
        [](Run &R, const Case &c) { return check_one(R, c.getb("domain")); },
        [] { return g_bytes ? mkcase(*g_bytes).str() : std::string(); },
        [](Run &) {
            C = new Consts(VA[0]);
            for (int v = 0; v < 2; v++) for (int m = 0; m < 4; m++) { OBJ[v][m] = new Obj(VA[v]); if (OBJ[v][m]->configure(m, 1, C->all_bits() & ~C->bit[SPECIAL]) != 0) return false; }
            return true;
        },
        [] { for (int v = 0; v < 2; v++) for (int m = 0; m < 4; m++) delete OBJ[v][m]; delete C; });
}
#else
VF_FUZZ_TARGET("C09", [](Run &R) { C = new Consts(VA[0]); for (int v = 0; v < 2; v++) for (int m = 0; m < 4; m++) { OBJ[v][m] = new Obj(VA[v]); if (OBJ[v][m]->configure(m, 1, C->all_bits() & ~C->bit[SPECIAL]) != 0) return false; } (void) R; return true; },
    [](Run &R, const uint8_t *d, size_t n) -> std::optional<Failure> { Bytes x = fuzz_bytes(d, n); if (x.empty()) return std::nullopt; R.sample("fuzz", show(x.substr(0, 80)), 4); return check_one(R, x); })
#endif
