// C16 — the result record is consistent with the decision and the form of the domain.
// Oracle: result_rules (below) written from the statement, with the form of the domain
// taken from the reference recognisers; builds with and without EAV_EXTRA side by side.
#include "../harness/rc_glue.hpp"
#include "../harness/addrcore.hpp"
#include "../harness/litshapes.hpp"

using namespace vf;
extern "C" const vapi dflt_api, extra_api;
static Core *KD, *KX;
static std::string g_case;

static Case mkcase(const Bytes &a, int mask) { Case c; c.b("addr", a).i("mask", mask); return c; }

static std::string rules(const Core &K, const Facts &f, int m, int t, const v_outcome &x, bool direct) {
    const Consts &C = K.C;
    int nflags = (x.is_ipv4 != 0) + (x.is_ipv6 != 0) + (x.is_domain != 0);
    if (!x.has_result && !direct) return "no result record after the call";
    if (nflags > 1) return "more than one of is_ipv4/is_ipv6/is_domain is set";
    bool accepted = direct ? (x.rc == 0 || x.rc > 0) : x.ret == 1;   // direct call: syntactically accepted and classified
    bool l_bad = !f.has_at || f.L.empty() || f.L.size() > 64 || !f.lref[m];
    bool d_bad = !f.has_at || f.D.empty() || (f.bracket ? !f.lit.upper : (m < 3 ? !f.host_ref : !f.aform_host));
    if ((l_bad || d_bad) && nflags != 0) return std::string("a flag is set although the ") + (l_bad ? "local part" : "domain") + " is syntactically invalid";
    if (!direct && x.ret == 1) {
        if (nflags != 1) return "accepted but no flag is set";
        if (f.bracket) { if (f.lit.family == 4 && !x.is_ipv4) return "accepted IPv4 literal without is_ipv4"; if (f.lit.family == 6 && !x.is_ipv6) return "accepted IPv6 literal without is_ipv6"; }
        else if (!x.is_domain) return "accepted host name without is_domain";
        if ((t == 0 || f.bracket) && x.rc != 0) return "accepted without TLD checking but rc != 0";
        if (t == 1 && !f.bracket) { bool cls = false; for (int k = 0; k < 9; k++) if (C.tld_type[k] == x.rc) cls = true; if (!cls) return "accepted with TLD checking but rc is not a TLD class"; }
    }
    if (!direct && x.ret == 0) {
        if (x.rc == 0) return "rejected but rc == 0";
        if (x.rc > 0) { bool cls = false; for (int k = 0; k < 9; k++) if (C.tld_type[k] == x.rc) cls = true; if (!cls || t == 0 || f.bracket) return "rejected with a positive rc that is not a TLD class of a checked host name"; }
    }
    if (x.rc > 0 && (t == 0 || f.bracket)) return "a TLD class although TLD checking did not apply";
    // syntax error codes => no flag (the library's own verdict 'syntactically invalid')
    if (x.rc < 0 && -x.rc != C.E_TLD_INVALID && -x.rc != C.E_NOT_FQDN && nflags != 0) return "a flag is set although rc reports a syntax error";
    if (x.has_extra) {
        bool synt_bad = l_bad || d_bad || (x.rc < 0 && -x.rc != C.E_TLD_INVALID && -x.rc != C.E_NOT_FQDN);
        if (synt_bad && (!x.lpart_null || !x.domain_null)) return "EAV_EXTRA: lpart/domain not NULL for a syntactically invalid address";
        if ((direct ? x.rc >= 0 : x.ret == 1)) {
            if (x.lpart_null || x.domain_null) return "EAV_EXTRA: lpart/domain NULL for an accepted address";
            Bytes lp((const char *) x.lpart, std::min<size_t>(x.lpart_len, V_LPART_MAX)), dm((const char *) x.domain, std::min<size_t>(x.domain_len, V_DOMAIN_MAX));
            Bytes wd = f.bracket ? f.D.substr(1, f.D.size() - 2) : f.D;
            if ((size_t) x.lpart_len != f.L.size() || lp != f.L.substr(0, V_LPART_MAX)) return "EAV_EXTRA: lpart '" + show(lp) + "' differs from the local part";
            if ((size_t) x.domain_len != wd.size() || dm != wd.substr(0, V_DOMAIN_MAX)) return "EAV_EXTRA: domain '" + show(dm) + "' differs from the domain part '" + show(wd) + "'";
        }
    }
    return "";
}

static std::optional<Failure> check_one(Run &R, const Bytes &a, int mask) {
    g_case = mkcase(a, mask).str();
    Facts f = facts(KD->T, KD->C, a);
    Outs od = KD->run(a, mask), ox = KX->run(a, mask);
    R.eval(32);
    bool any_acc = false, lvalid = false;
    for (int m = 0; m < 4; m++) { if (f.has_at && f.lref[m] && !f.L.empty() && f.L.size() <= 64) lvalid = true; for (int t = 0; t < 2; t++) if (od.obj[m][t].ret == 1) any_acc = true; }
    if (any_acc || lvalid) R.nontrivial(hashs(a));
    R.count(any_acc ? "accepted-in-some-mode" : lvalid ? "rejected-with-valid-local" : "rejected-invalid-local");
    if (any_acc && f.bracket) R.sample(f.lit.family == 4 ? "accepted v4 literal" : "accepted v6 literal", show(a), 2);
    for (int m = 0; m < 4; m++) for (const Outs *oo : {&od, &ox}) { std::string w = veteran_differs(*oo, m); if (!w.empty()) return Failure{"record-after-history", g_case, "address '" + show(a) + "': " + w}; }
    for (int m = 0; m < 4; m++) for (int t = 0; t < 2; t++) {
        std::string where = std::string("mode ") + ref::MODE_NAME[m] + " tld_check=" + std::to_string(t) + " address '" + show(a) + "': ";
        struct { const Core *K; const v_outcome *x; bool direct; const char *n; } v[] = {
            {KD, &od.obj[m][t], false, "eav_is_email"}, {KD, &od.dir[m][t], true, "is_<mode>_email"}, {KX, &ox.obj[m][t], false, "eav_is_email[EAV_EXTRA]"}, {KX, &ox.dir[m][t], true, "is_<mode>_email[EAV_EXTRA]"}};
        for (auto &e : v) { std::string w = rules(*e.K, f, m, t, *e.x, e.direct); if (!w.empty()) return Failure{"result-record", g_case, where + e.n + " -> " + outcome_str(*e.x) + ": " + w}; }
        const v_outcome &p = od.obj[m][t], &q = ox.obj[m][t];
        if (p.ret != q.ret || p.errcode != q.errcode || p.rc != q.rc || p.is_ipv4 != q.is_ipv4 || p.is_ipv6 != q.is_ipv6 || p.is_domain != q.is_domain || p.idn_rc != q.idn_rc)
            return Failure{"extra-build-differs", g_case, where + "default build " + outcome_str(p) + " vs EAV_EXTRA build " + outcome_str(q)};
    }
    return std::nullopt;
}
static bool run_one(Run &R, const Bytes &a, int mask) { auto f = check_one(R, a, mask); return !(f && !R.fail(*f)); }

static void stage_bounded(Run &R) {
    static const char AL[] = {'a', '@', '.', '[', ']', '1', ':', '"'};
    const int K = sizeof AL; int maxlen = R.a.thorough ? 7 : 6;
    uint64_t total = 0, idx = 0; std::vector<int> d(maxlen, 0); int dm = KD->default_mask();
    for (int len = 1; len <= maxlen; len++) {
        uint64_t cnt = 1; for (int i = 0; i < len; i++) cnt *= K;
        total += cnt; std::fill(d.begin(), d.end(), 0);
        for (uint64_t n = 0; n < cnt; n++) {
            if ((int) ((idx++ / 8) % R.a.nworkers) == R.a.worker) { Bytes b; for (int i = 0; i < len; i++) b += AL[d[i]]; if (!run_one(R, b, dm)) return; }
            for (int i = len - 1; i >= 0; i--) { if (++d[i] < K) break; d[i] = 0; }
        }
    }
    R.space("C16 all strings of length 1.." + std::to_string(maxlen) + " over {a @ . [ ] 1 : \"} x 4 modes x tld_check {0,1} x 2 builds", total);
}
static void stage_forms(Run &R) {
    uint64_t idx = 0, total = 0;
    static const char *LS[] = {"a", "a.b", "\"q q\"", "\xD0\x96", "a..b", "", "\"open", "a b"};
    static const char *DS[] = {"b.com", "sub.example.org", "x.zzunlisted", "single", "x.abarth", "[1.2.3.4]", "[IPv6:::1]", "[IPv6:1:2:3:4:5:6:7:8]", "[2001:db8::1]", "[IPv6:::ffff:1.2.3.4]", "[1.2.3]", "[1.2.3.4]x",
                               "[0.1.2.3]", "-b.com", "b..com", "\xD0\xBF\xD0\xBE\xD1\x87\xD1\x82\xD0\xB0.\xD1\x80\xD1\x84", "xn--p1ai.com", "\xE2\x99\xA5.com", "1.2.3.4", "b.com.", "[IPv6:1::2:3:4:5:6:7]", "localhost", "A.B.C.D.E.RU", "example.com.", "host.localhost.", "www.test.", "EXAMPLE.ORG.", "x.onion.", "localhost.", "a.ru."};
    for (const char *l : LS) for (const char *d : DS) for (int mask : {KD->default_mask(), 0, 0x7ff}) { total++; if ((int) (idx++ % R.a.nworkers) != R.a.worker) continue; if (!run_one(R, Bytes(l) + "@" + d, mask)) return; }
    { std::vector<Bytes> longd = gen::idn_mapped_shapes("a", "com");
      for (uint32_t unit : {0x3042u, 0x436u}) for (int nl : {2, 3, 4, 5}) for (int n : {30, 40, 42}) { Bytes d; for (int k = 0; k < nl; k++) { for (int i = 0; i < n; i++) d += ref::utf8_encode(unit + (i + k) % 16); d += '.'; } longd.push_back(d + "com"); }
      for (const Bytes &d : gen::mapped_names()) longd.push_back(d);
      for (const Bytes &d : longd) { total++; if ((int) (idx++ % R.a.nworkers) != R.a.worker) continue; if (!run_one(R, "u@" + d, KD->default_mask())) return; } }
    R.space("C16 8 local-part forms x 30 domain forms x 3 masks; long IDN domains (UTF-8 spelling 120-1300 octets), IDNA-mapped spellings", total);
}
// the address literals enumerated for C05, as domain parts of whole addresses
static void stage_literals(Run &R) {
    uint64_t idx = 0, total = 0; int dm = KD->default_mask();
    auto go = [&](const Bytes &l) -> bool { total++; if ((int) (idx++ % R.a.nworkers) != R.a.worker) return true; return run_one(R, (total % 5 == 0 ? "\"q q\"@" : "u@") + l, dm); };
    if (!lit::shapes(R.a.thorough, go)) return;
    R.space("C16 the enumerated address-literal texts of C05 (IPv6 shapes, octet values, longest spellings, every byte in the tag, out-of-range octets, bytes around the brackets) as domain part", total);
}
static void stage_random(Run &R) {
    rc_run(R, "C16 result record rules on generated addresses", 4.0, [&](Src &s) -> std::optional<Failure> {
        int mask = s.chance(1, 2) ? KD->default_mask() : (int) s.pick(2048);
        Bytes a = gen_address(s, KD->T);
        R.sample("random", show(a), 6);
        return check_one(R, a, mask);
    });
}
static void stage_corpus(Run &R) {
    uint64_t i = 0;
    for (const Bytes &l : corpus_lines(R.a.datadir)) { if ((int) (i++ % R.a.nworkers) != R.a.worker) continue; if (!run_one(R, l, KD->default_mask())) return; if (!run_one(R, l, 0)) return; R.count("corpus-lines"); }
}

#ifndef VF_FUZZ
int main(int argc, char **argv) {
    return std_main(argc, argv, "C16", {{"bounded", stage_bounded}, {"forms", stage_forms}, {"random", stage_random}, {"literals", stage_literals}, {"corpus", stage_corpus}},
        [](Run &R, const Case &c) { return check_one(R, c.getb("addr"), (int) c.geti("mask")); }, [] { return g_case; },
        [](Run &R) { KD = new Core(&dflt_api); KX = new Core(&extra_api); return KD->init(R.a.datadir) && KX->init(R.a.datadir) && extra_api.has_extra == 1 && dflt_api.has_extra == 0; },
        [] { delete KD; delete KX; });
}
#else
VF_FUZZ_TARGET("C16", [](Run &R) { KD = new Core(&dflt_api); KX = new Core(&extra_api); return KD->init(R.a.datadir) && KX->init(R.a.datadir); },
    [](Run &R, const uint8_t *d, size_t n) -> std::optional<Failure> {
        if (n < 2) return std::nullopt;
        int mask = (d[n - 1] | (d[n - 2] << 8)) % 2048; if (d[n - 1] & 0x80) mask = KD->default_mask();
        Bytes a = fuzz_bytes(d, n - 2); R.sample("fuzz", show(a.substr(0, 80)), 4);
        return check_one(R, a, mask); })
#endif
