// C18 — the IDN backend (libidn2 / libidn / idnkit) changes no decision and leaks no resource.
// The three partial/<backend> source sets are built with the repository's Makefile
// (FORCE_IDN=...) against thin adapter headers whose implementation (adapters/adapter.c)
// maps each IDN API onto the same converter, and are linked into one process.
// Oracles: (1) identical outcome tuple for every address, mode and setting and at every
// step of every call history; (2) adapter counters: idnkit contexts created == destroyed
// after eav_free, exactly one live context while an object is in mode 6531, never a
// destroy of a dead context (abort) — plus ASan/LSan.
#include "../harness/rc_glue.hpp"
#include "../harness/addrcore.hpp"

using namespace vf;
extern "C" const vapi b_idn2_api, b_idn_api, b_idnkit_api;
extern "C" long vadapt_creates, vadapt_destroys, vadapt_encodes; extern "C" long vadapt_live(void);
extern "C" int __lsan_do_recoverable_leak_check(void);
static const vapi *V[3] = {&b_idn2_api, &b_idn_api, &b_idnkit_api};
static const char *VN[3] = {"libidn2", "libidn", "idnkit"};
static Core *KC[3];
static std::string g_case;
static Tlds T;

static bool eq(const v_outcome &x, const v_outcome &y, bool direct) {
    bool overflow = x.idn_rc == 9001 || y.idn_rc == 9001;
    if (overflow) return x.ret == y.ret && x.errcode == y.errcode;
    return x.ret == y.ret && x.errcode == y.errcode && x.rc == y.rc && x.idn_rc == y.idn_rc && x.is_ipv4 == y.is_ipv4 && x.is_ipv6 == y.is_ipv6 && x.is_domain == y.is_domain &&
           x.has_result == y.has_result && (direct || (x.errstr_null == y.errstr_null && strcmp(x.errstr, y.errstr) == 0));
}

static std::optional<Failure> check_addr(Run &R, const Bytes &a, int mask) {
    Case cs; cs.i("kind", 0).b("addr", a).i("mask", mask); g_case = cs.str();
    Outs o[3]; for (int v = 0; v < 3; v++) o[v] = KC[v]->run(a, mask);
    R.eval(48);
    bool nontriv = a.find('@') != Bytes::npos && a.rfind('@') + 1 < a.size() && a[a.rfind('@') + 1] != '[';
    if (nontriv) R.nontrivial(hashs(a));
    R.count(ref::pure_ascii(a) ? "ascii-address" : "non-ascii-address");
    for (int m = 0; m < 4; m++) for (int t = 0; t < 2; t++) for (int v = 1; v < 3; v++) {
        if (!eq(o[0].obj[m][t], o[v].obj[m][t], false))
            return Failure{"backend-differs", g_case, std::string("mode ") + ref::MODE_NAME[m] + " tld_check=" + std::to_string(t) + " address '" + show(a) + "': libidn2 build -> " + outcome_str(o[0].obj[m][t]) + ", " + VN[v] + " build -> " + outcome_str(o[v].obj[m][t])};
        if (!eq(o[0].dir[m][t], o[v].dir[m][t], true))
            return Failure{"backend-differs-direct", g_case, std::string("is_") + ref::MODE_NAME[m] + "_email tld=" + std::to_string(t) + " '" + show(a) + "': libidn2 build -> " + outcome_str(o[0].dir[m][t]) + ", " + VN[v] + " build -> " + outcome_str(o[v].dir[m][t])};
    }
    if (vadapt_live() != 3) { /* the idnkit Core holds 3 objects in mode 6531: tld off, tld on, and the veteran of mode 6531 (the veterans of the ASCII modes passed through 6531 and left it again) */
        return Failure{"context-count", g_case, "idnkit contexts live = " + std::to_string(vadapt_live()) + " while exactly three objects are in mode 6531"};
    }
    return std::nullopt;
}

// ---- histories (same operation alphabet as C13), executed in lockstep on the three builds
struct Op { char k; long long v; Bytes addr; };
static std::string enc(const std::vector<Op> &ops) {
    std::string s = "kind=1 ops=";
    for (size_t i = 0; i < ops.size(); i++) { if (i) s += ";"; s += ops[i].k; if (ops[i].k == 'E') s += "x" + hexs(ops[i].addr); else if (ops[i].k == 'R' || ops[i].k == 'T' || ops[i].k == 'A') s += std::to_string(ops[i].v); }
    if (ops.empty()) s += "-";
    return s;
}
static std::vector<Op> dec(const Case &c) {
    std::vector<Op> ops; std::string body = c.raw("ops"), t; std::istringstream is(body);
    while (std::getline(is, t, ';')) { if (t.empty() || t == "-") continue; Op o{t[0], 0, ""}; if (o.k == 'E') o.addr = unhex(t.substr(2)); else if (t.size() > 1) o.v = atoll(t.c_str() + 1); ops.push_back(o); }
    return ops;
}
static std::optional<Failure> run_history(Run &R, const std::vector<Op> &ops, long base_live) {
    g_case = enc(ops);
    std::optional<Failure> fail;
    {
        Obj *o[3]; for (int v = 0; v < 3; v++) o[v] = new Obj(V[v], 0x33);
        K k(V[0]); int r6531 = k("EAV_RFC_6531"), r822 = k("EAV_RFC_822"), r5321 = k("EAV_RFC_5321"), r5322 = k("EAV_RFC_5322");
        int rfc_raw = r6531; bool in6531 = false, confirmed = false, live_obj = true;
        for (size_t i = 0; i < ops.size() && !fail; i++) {
            const Op &op = ops[i]; std::string where = "op " + std::to_string(i) + " of " + g_case.substr(0, 300) + ": ";
            switch (op.k) {
            case 'R': for (int v = 0; v < 3; v++) V[v]->obj_set_rfc_raw(o[v]->p, (int) op.v); rfc_raw = (int) op.v; break;
            case 'T': for (int v = 0; v < 3; v++) V[v]->obj_set_tld(o[v]->p, (int) op.v); break;
            case 'A': for (int v = 0; v < 3; v++) V[v]->obj_set_allow(o[v]->p, (int) op.v); break;
            case 'S': {
                int rc[3]; for (int v = 0; v < 3; v++) rc[v] = V[v]->obj_setup(o[v]->p); R.eval(3);
                if (rc[0] != rc[1] || rc[0] != rc[2]) fail = Failure{"backend-differs-setup", g_case, where + "eav_setup returned " + std::to_string(rc[0]) + "/" + std::to_string(rc[1]) + "/" + std::to_string(rc[2]) + " (libidn2/libidn/idnkit)"};
                if (rc[0] == 0) { confirmed = true; in6531 = rfc_raw == r6531; } (void) r822; (void) r5321; (void) r5322;
            } break;
            case 'E': {
                if (!confirmed) break;
                v_outcome x[3]; for (int v = 0; v < 3; v++) x[v] = o[v]->is_email(op.addr); R.eval(3);
                for (int v = 1; v < 3 && !fail; v++) if (!eq(x[0], x[v], false)) fail = Failure{"backend-differs-history", g_case, where + "eav_is_email('" + show(op.addr) + "'): libidn2 build -> " + outcome_str(x[0]) + ", " + VN[v] + " build -> " + outcome_str(x[v])};
            } break;
            case 'M': {
                if (!confirmed) break;
                v_outcome e[3]; for (int v = 0; v < 3; v++) V[v]->obj_errstr(o[v]->p, &e[v]);
                for (int v = 1; v < 3 && !fail; v++) if (e[0].errstr_null != e[v].errstr_null || strcmp(e[0].errstr, e[v].errstr) != 0) fail = Failure{"backend-differs-errstr", g_case, where + "eav_errstr: '" + e[0].errstr + "' vs " + VN[v] + " '" + e[v].errstr + "'"};
            } break;
            case 'F': for (int v = 0; v < 3; v++) { V[v]->obj_free(o[v]->p); V[v]->obj_init(o[v]->p); } confirmed = false; in6531 = false; rfc_raw = r6531; break;
            }
            // backend state: exactly one live context for this idnkit object while it is in mode 6531
            long want = base_live + (in6531 ? 1 : 0);
            if (!fail && vadapt_live() != want) fail = Failure{"context-count", g_case, where + "idnkit contexts live = " + std::to_string(vadapt_live() - base_live) + " for one object that is " + (in6531 ? "" : "not ") + "in mode 6531"};
        }
        (void) live_obj;
        for (int v = 0; v < 3; v++) delete o[v]; // eav_free
    }
    if (!fail && vadapt_live() != base_live) fail = Failure{"context-leak", g_case, "after eav_free " + std::to_string(vadapt_live() - base_live) + " idnkit context(s) are still live (created " + std::to_string(vadapt_creates) + ", destroyed " + std::to_string(vadapt_destroys) + ")"};
    return fail;
}

static std::vector<Op> pool12() {
    K k(V[0]);
    return {{'R', k("EAV_RFC_5321"), ""}, {'R', k("EAV_RFC_6531"), ""}, {'R', 7, ""}, {'T', 0, ""}, {'A', 0, ""}, {'S', 0, ""},
            {'E', 0, "\xD0\xB8\xD0\xB2\xD0\xB0\xD0\xBD@\xD0\xBF\xD0\xBE\xD1\x87\xD1\x82\xD0\xB0.\xD1\x80\xD1\x84"}, {'E', 0, "a..b@c.com"}, {'E', 0, "a@\xE2\x99\xA5.de"}, {'E', 0, "a@b.com"}, {'M', 0, ""}, {'F', 0, ""}};
}
static void stage_histories(Run &R) {
    std::vector<Op> P = pool12(); const int K12 = (int) P.size();
    int maxlen = R.a.thorough ? 6 : 5; uint64_t total = 0, idx = 0; long base = vadapt_live();
    std::vector<int> d(maxlen, 0);
    for (int len = 1; len <= maxlen; len++) {
        uint64_t cnt = 1; for (int i = 0; i < len; i++) cnt *= K12; total += cnt; std::fill(d.begin(), d.end(), 0);
        for (uint64_t n = 0; n < cnt; n++) {
            if ((int) ((idx++ / 16) % R.a.nworkers) == R.a.worker) {
                std::vector<Op> h; for (int i = 0; i < len; i++) h.push_back(P[d[i]]);
                auto f = run_history(R, h, base);
                int setups = 0; for (auto &o : h) if (o.k == 'S') setups++;
                if (setups >= 1) R.nontrivial(hashs(g_case));
                R.count("histories"); R.sample("history", g_case, 3);
                if (f && !R.fail(*f)) return;
            }
            for (int i = len - 1; i >= 0; i--) { if (++d[i] < K12) break; d[i] = 0; }
        }
    }
    if (__lsan_do_recoverable_leak_check() != 0) R.fail(Failure{"leak-after-history", "kind=1 ops=-", "LeakSanitizer reports unreleased memory after the enumerated histories"});
    R.space("C18 all operation sequences of length 1.." + std::to_string(maxlen) + " over the 12-operation pool of C13, in lockstep on the three backend builds", total);
}
static void stage_random_hist(Run &R) {
    std::vector<Bytes> corpus = corpus_lines(R.a.datadir); K k(V[0]); long base = vadapt_live();
    rc_run(R, "C18 random histories agree across backends and release backend state", 5.0, [&](Src &s) -> std::optional<Failure> {
        std::vector<Bytes> pool; uint32_t np = 2 + s.pick(8); for (uint32_t i = 0; i < np; i++) pool.push_back(s.chance(1, 3) ? s.of(corpus) : gen_address(s, T));
        std::vector<Op> h; uint32_t n = 1 + s.pick(120);
        for (uint32_t i = 0; i < n; i++) switch (s.pick(10)) {
            case 0: case 1: { static const char *M[] = {"EAV_RFC_822", "EAV_RFC_5321", "EAV_RFC_5322", "EAV_RFC_6531"}; h.push_back({'R', k(M[s.pick(4)]), ""}); h.push_back({'S', 0, ""}); } break;
            case 2: h.push_back({'R', s.chance(1, 2) ? -1 : 7, ""}); h.push_back({'S', 0, ""}); break;
            case 3: h.push_back({'T', (long long) s.pick(2), ""}); break;
            case 4: h.push_back({'A', (long long) s.pick(2048), ""}); break;
            case 5: h.push_back({'S', 0, ""}); break;
            case 6: h.push_back({s.chance(1, 3) ? 'F' : 'M', 0, ""}); break;
            default: h.push_back({'E', 0, s.of(pool)});
        }
        R.nontrivial(hashs(enc(h))); R.count("random-histories");
        return run_history(R, h, base);
    });
    if (!R.failed() && __lsan_do_recoverable_leak_check() != 0) R.fail(Failure{"leak-after-history", "kind=1 ops=-", "LeakSanitizer reports unreleased memory after the random histories"});
}

static void stage_corpus(Run &R) {
    uint64_t i = 0; int dm = KC[0]->default_mask();
    for (const Bytes &l : corpus_lines(R.a.datadir)) { if ((int) (i++ % R.a.nworkers) != R.a.worker) continue; auto f = check_addr(R, l, dm); if (f && !R.fail(*f)) return; R.count("corpus-lines"); }
    std::ifstream f(R.a.datadir + "/tld-domains.txt"); std::string line; uint64_t n = 0;
    while (std::getline(f, line)) { if (line.empty()) continue; if ((int) (n++ % R.a.nworkers) != R.a.worker) continue; auto fl = check_addr(R, "u@" + line, 0x7ff); if (fl && !R.fail(*fl)) return; }
    for (const Bytes &d : gen::mapped_names()) for (int mask : {0, 0x7ff, dm}) { if ((int) (n++ % R.a.nworkers) != R.a.worker) continue; auto fl = check_addr(R, "u@" + d, mask); if (fl && !R.fail(*fl)) return; }
    for (const Bytes &d : gen::idn_mapped_shapes("iana", "org")) { if ((int) (n++ % R.a.nworkers) != R.a.worker) continue; auto fl = check_addr(R, "u@" + d, dm); if (fl && !R.fail(*fl)) return; }
    for (size_t r = 0; r < T.puny.rows.size(); r++) { if ((int) (r % R.a.nworkers) != R.a.worker) continue; auto fl = check_addr(R, "u@x." + T.puny.rows[r].domain, 0); if (fl && !R.fail(*fl)) return; }
}
static void stage_random(Run &R) {
    rc_run(R, "C18 generated addresses decide identically in the three backend builds", 4.0, [&](Src &s) -> std::optional<Failure> {
        int mask = s.chance(1, 2) ? KC[0]->default_mask() : (int) s.pick(2048);
        Bytes a = s.chance(1, 3) ? "u@" + gen::idn_host(s, &T.idn_u, &T.alist) : gen_address(s, T);
        for (auto &c : a) if (c == 0) c = 1;
        R.sample("random", show(a), 6);
        return check_addr(R, a, mask);
    });
}

int main(int argc, char **argv) {
    return std_main(argc, argv, "C18", {{"corpus", stage_corpus}, {"random", stage_random}, {"histories", stage_histories}, {"randhist", stage_random_hist}},
        [](Run &R, const Case &c) -> std::optional<Failure> { if (c.geti("kind") == 1) return run_history(R, dec(c), vadapt_live()); return check_addr(R, c.getb("addr"), (int) c.geti("mask")); }, [] { return g_case; },
        [](Run &R) { if (!T.load(R.a.datadir)) return false; for (int v = 0; v < 3; v++) { KC[v] = new Core(V[v]); if (!KC[v]->init(R.a.datadir)) return false; }
                     return V[0]->backend == 2 && V[1]->backend == 1 && V[2]->backend == 3; },
        [] { for (int v = 0; v < 3; v++) delete KC[v]; });
}
