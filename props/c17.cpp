// C17 — build options change exactly what they document and nothing else.
// Nine builds in one process: o000..o111 (the three make variables given explicitly) and
// `dflt` (no variable given: pins the Makefile defaults).  Oracles:
//  (D) dflt == o000 on every outcome (the default build has all three off);
//  (A) local part: the ASCII-mode scanners are identical in all builds; is_6531_local_v(L) equals the
//      reference recogniser with the build's options (RFC20: # ^ ` { | } ~ leave atext; RFC5322: the
//      5322 quoted-content rules) — for pure-ASCII L also the stated relation with the build's own
//      is_5322_local; non-ASCII L with quoted whitespace/controls in an RFC5322 build is not judged;
//  (B) domain: is_ascii_domain_v(D) <=> host_ok(D, '_' counts as a letter iff UNDERSCORE);
//      is_utf8_domain_v: unchanged without '_', else equal to the default build on D with '_' -> 'q';
//      is_tld / is_special_domain / is_ipv4 / is_ipv6 identical in all builds;
//  (C) address: in every build, mode and tld_check the decision equals the composition of that
//      build's own per-part validators (so the options act only through (A) and (B)), and when no
//      option can act on the input (no RFC20 character, no '_', no quoted whitespace/control) all
//      builds give the identical outcome.
#include "../harness/rc_glue.hpp"
#include "../harness/addrcore.hpp"

using namespace vf;
extern "C" const vapi dflt_api, o000_api, o001_api, o010_api, o011_api, o100_api, o101_api, o110_api, o111_api;
static const vapi *VV[9] = {&o000_api, &o001_api, &o010_api, &o011_api, &o100_api, &o101_api, &o110_api, &o111_api, &dflt_api};
static const char *VNAME[9] = {"o000", "o001(UNDERSCORE)", "o010(RFC20)", "o011", "o100(RFC5322)", "o101", "o110", "o111", "default-no-variables"};
struct Opt { bool r5322, r20, under; };
static Opt optof(int v) { if (v == 8) return {false, false, false}; return {(v & 4) != 0, (v & 2) != 0, (v & 1) != 0}; }
static Core *KV[9];
static std::string g_case;
static TailBuf TB(8192);

static Case mkcase(int kind, const Bytes &x, int mask = 0) { Case c; c.i("kind", kind).b("x", x).i("mask", mask); return c; }
static bool same(const v_outcome &x, const v_outcome &y) { return x.ret == y.ret && x.errcode == y.errcode && x.rc == y.rc && x.is_ipv4 == y.is_ipv4 && x.is_ipv6 == y.is_ipv6 && x.is_domain == y.is_domain && strcmp(x.errstr, y.errstr) == 0; }

// ---- (A) local part
static std::optional<Failure> check_local(Run &R, const Bytes &L) {
    g_case = mkcase(0, L).str();
    if (L.empty()) return std::nullopt;
    bool ascii = ref::pure_ascii(L), qws = ref::has_quoted_ws_or_ctl(L), r20c = L.find_first_of("#^`{|}~") != Bytes::npos;
    if (r20c || qws) R.nontrivial(hashs(L, 1));
    R.count(r20c ? "local-with-rfc20-char" : qws ? "local-with-quoted-ws/ctl" : "local-plain");
    int base[4];
    for (int v = 0; v < 9; v++) {
        Opt o = optof(v); int rc[4];
        for (int m = 0; m < 4; m++) { char *p = TB.place(L, '@', "d.com"); rc[m] = VV[v]->part(LOCAL_PART_OF_MODE[m], p, p + L.size(), 0, nullptr); }
        R.eval(4);
        if (v == 0) { for (int m = 0; m < 4; m++) base[m] = rc[m]; }
        for (int m = 0; m < 3; m++) if (rc[m] != base[m])
            return Failure{"option-leaks-into-ascii-mode", g_case, std::string("is_") + ref::MODE_NAME[m] + "_local('" + show(L) + "') = " + std::to_string(rc[m]) + " in build " + VNAME[v] + " but " + std::to_string(base[m]) + " in o000"};
        if (v == 8 && rc[3] != base[3]) return Failure{"default-build-differs-from-all-off", g_case, "is_6531_local('" + show(L) + "') = " + std::to_string(rc[3]) + " in the no-variable build, " + std::to_string(base[3]) + " in o000"};
        bool got = rc[3] == 0;
        if (!ascii && ref::utf8_ok(L) && o.r5322 && qws) { R.count("not-judged(non-ascii+quoted-ws, RFC5322 build)"); continue; }
        ref::LocalOpts lo; lo.rfc20 = o.r20; lo.follow5322 = ascii ? o.r5322 : false;
        bool want = ref::local_ok(ref::M6531, L, lo);
        if (got != want)
            return Failure{std::string("6531-local-") + (o.r5322 ? "rfc5322" : "") + (o.r20 ? "rfc20" : "") + (!o.r5322 && !o.r20 ? "default" : "") + "-build", g_case,
                           "is_6531_local('" + show(L) + "') = " + std::to_string(rc[3]) + " in build " + VNAME[v] + ", reference with these options says " + (want ? "valid" : "invalid")};
        if (ascii && o.r5322) { // stated relation: judges pure-ASCII local parts as mode 5322 does
            bool w2 = rc[2] == 0 && !(o.r20 && ref::rfc20_outside_quotes(L));
            if (got != w2) return Failure{"6531-rfc5322-build-vs-5322", g_case, "build " + std::string(VNAME[v]) + ": is_6531_local('" + show(L) + "') = " + std::to_string(rc[3]) + " but is_5322_local = " + std::to_string(rc[2])};
        }
        if (o.r20 && !o.r5322) { // stated relation against the same build without RFC20
            bool b = false; { char *p = TB.place(L, '@', "d.com"); b = VV[v & ~2]->part(VP_6531_LOCAL, p, p + L.size(), 0, nullptr) == 0; }
            bool w3 = b && !ref::rfc20_outside_quotes(L);
            if (got != w3) return Failure{"6531-rfc20-exactness", g_case, "build " + std::string(VNAME[v]) + ": '" + show(L) + "' " + (got ? "accepted" : "rejected") + ", without RFC20 " + (b ? "accepted" : "rejected") + ", RFC20 character outside quotes: " + (ref::rfc20_outside_quotes(L) ? "yes" : "no")};
        }
    }
    return std::nullopt;
}

// ---- (B) domain
static Bytes no_us(const Bytes &d) { Bytes o = d; for (auto &c : o) if (c == '_') c = 'q'; return o; }
static bool has_xn(const Bytes &d) { Bytes l = ref::lower(d); return l.find("xn--") != Bytes::npos; }
static std::optional<Failure> check_domain(Run &R, const Bytes &D) {
    g_case = mkcase(1, D).str();
    if (D.empty() || D.find('@') != Bytes::npos) return std::nullopt;
    bool us = D.find('_') != Bytes::npos;
    if (us) R.nontrivial(hashs(D, 2));
    R.count(us ? "domain-with-underscore" : "domain-without-underscore");
    int base_ascii = 0, base_utf[2] = {0, 0}, base_misc[5] = {0};
    for (int v = 0; v < 9; v++) {
        Opt o = optof(v);
        int ra = part0(VV[v], TB, VP_ASCII_DOMAIN, D); R.eval();
        bool want = ref::host_ok(D, o.under);
        if ((ra == 0) != want) return Failure{o.under ? "underscore-build-hostname" : "hostname", g_case, "is_ascii_domain('" + show(D) + "') = " + std::to_string(ra) + " in build " + VNAME[v] + ", reference (" + (o.under ? "'_' is a letter" : "'_' invalid") + ") says " + (want ? "valid" : "invalid")};
        if (v == 0) base_ascii = ra;
        if (!o.under && ra != base_ascii) return Failure{"option-leaks-into-hostname", g_case, "is_ascii_domain('" + show(D) + "') = " + std::to_string(ra) + " in build " + VNAME[v] + " vs " + std::to_string(base_ascii) + " in o000"};
        int misc[5] = {part0(VV[v], TB, VP_TLD, D), part0(VV[v], TB, VP_SPECIAL, D), part0(VV[v], TB, VP_IPV4, D), part0(VV[v], TB, VP_IPV6, D), part0(VV[v], TB, VP_IPADDR, D)}; R.eval(5);
        if (v == 0) memcpy(base_misc, misc, sizeof misc);
        else if (memcmp(base_misc, misc, sizeof misc) != 0) return Failure{"option-leaks-into-other-validator", g_case, "is_tld/is_special_domain/is_ipv4/is_ipv6/is_ipaddr on '" + show(D) + "' differ between build " + VNAME[v] + " and o000"};
        for (int t = 0; t < 2; t++) {
            int ru = part0(VV[v], TB, VP_UTF8_DOMAIN, D, t); R.eval();
            if (v == 0) { base_utf[t] = ru; continue; }
            if (!o.under || !us) { if (ru != base_utf[t]) return Failure{"option-leaks-into-utf8-domain", g_case, "is_utf8_domain('" + show(D) + "', tld=" + std::to_string(t) + ") = " + std::to_string(ru) + " in build " + VNAME[v] + " vs " + std::to_string(base_utf[t]) + " in o000"}; continue; }
            // UNDERSCORE build, '_' present: differential with '_' -> 'q' in the default build (sound only without xn-- labels, and with TLD checking only when the last label has no '_')
            if (has_xn(D)) { R.count("not-judged(xn-- label with underscore)"); continue; }
            std::vector<Bytes> labs = ref::split_labels(D);
            if (t == 1 && labs.back().find('_') != Bytes::npos) { R.count("not-judged(underscore in last label, tld on)"); continue; }
            if (to_ascii(D).rc != IDN2_OK) { if (ru != base_utf[t]) return Failure{"underscore-build-idn-refused", g_case, "the IDN library refuses '" + show(D) + "' but is_utf8_domain differs between builds: " + std::to_string(ru) + " vs " + std::to_string(base_utf[t])}; continue; }
            Bytes Dq = no_us(D); if (to_ascii(Dq).rc != IDN2_OK) { R.count("not-judged(substituted domain refused by IDN)"); continue; }
            int rq = part0(VV[0], TB, VP_UTF8_DOMAIN, Dq, t); R.eval();
            if (ru != rq) return Failure{"underscore-build-utf8-domain", g_case, "build " + std::string(VNAME[v]) + ": is_utf8_domain('" + show(D) + "', tld=" + std::to_string(t) + ") = " + std::to_string(ru) + " but the default build gives " + std::to_string(rq) + " for '" + show(Dq) + "' ('_' replaced by a letter)"};
        }
    }
    return std::nullopt;
}

// ---- (C) whole addresses
static std::optional<Failure> check_addr(Run &R, const Bytes &a, int mask) {
    g_case = mkcase(2, a, mask).str();
    Facts f = facts(KV[0]->T, KV[0]->C, a);
    bool r20c = f.L.find_first_of("#^`{|}~") != Bytes::npos, us = f.D.find('_') != Bytes::npos, qws = ref::has_quoted_ws_or_ctl(f.L);
    bool can_act = r20c || us || qws;
    if (can_act) R.nontrivial(hashs(a, 3));
    R.count(can_act ? "address-an-option-can-act-on" : "address-no-option-can-act-on");
    Outs o0 = KV[0]->run(a, mask); R.eval(16);
    int ipa = KV[0]->A->konst("EEAV_IPADDR_INVALID"), ipb = KV[0]->A->konst("EEAV_IPADDR_BRACKET_UNPAIR");
    for (int v = 0; v < 9; v++) {
        Outs ov = v == 0 ? o0 : KV[v]->run(a, mask); if (v) R.eval(16);
        for (int m = 0; m < 4; m++) for (int t = 0; t < 2; t++) {
            std::string where = std::string("build ") + VNAME[v] + " mode " + ref::MODE_NAME[m] + " tld_check=" + std::to_string(t) + " address '" + show(a) + "': ";
            if (v == 8 || !can_act) { if (!same(ov.obj[m][t], o0.obj[m][t]) || !same(ov.dir[m][t], o0.dir[m][t])) return Failure{v == 8 ? "default-build-differs-from-all-off" : "option-changes-unrelated-decision", g_case, where + outcome_str(ov.obj[m][t]) + " but o000 gives " + outcome_str(o0.obj[m][t])}; }
            bool fl, rl; int want = compose(*KV[v], f, m, t, &fl, &rl); R.eval(3);
            int got = ov.dir[m][t].rc;
            bool okc = fl ? (got == 0 || got == -ipa || got == -ipb) : rl ? (got == -ipa || got == -ipb) : got == want;
            if (!okc) return Failure{"decision-not-composition-of-parts", g_case, where + "is_<mode>_email rc=" + std::to_string(got) + " but this build's own per-part validators compose to " + std::to_string(want)};
            int wr, we; policy(KV[v]->C, got, ov.mask[t], &wr, &we);
            if (ov.obj[m][t].ret != wr || ov.obj[m][t].errcode != we || ov.obj[m][t].rc != got) return Failure{"decision-not-composition-of-parts", g_case, where + outcome_str(ov.obj[m][t]) + " but rc " + std::to_string(got) + " and allow_tld give ret=" + std::to_string(wr) + " errcode=" + std::to_string(we)};
        }
    }
    return std::nullopt;
}

template <class F> static bool enumerate(Run &R, const std::vector<Bytes> &AL, int maxlen, uint64_t *total, F fn) {
    const int K = (int) AL.size(); uint64_t idx = 0; std::vector<int> d(maxlen, 0);
    for (int len = 1; len <= maxlen; len++) {
        uint64_t cnt = 1; for (int i = 0; i < len; i++) cnt *= K; *total += cnt; std::fill(d.begin(), d.end(), 0);
        for (uint64_t n = 0; n < cnt; n++) {
            if ((int) ((idx++ / 16) % R.a.nworkers) == R.a.worker) { Bytes b; for (int i = 0; i < len; i++) b += AL[d[i]]; auto f = fn(b); if (f && !R.fail(*f)) return false; }
            for (int i = len - 1; i >= 0; i--) { if (++d[i] < K) break; d[i] = 0; }
        }
    }
    return true;
}
static void stage_locals(Run &R) {
    uint64_t t1 = 0, t2 = 0, t3 = 0;
    if (!enumerate(R, {"a", ".", "\"", "\\", " ", "\t", "\r", "\n", "(", "\x01", "\x7f", "\x80", "#"}, R.a.thorough ? 6 : 5, &t1, [&](const Bytes &b) { return check_local(R, b); })) return;
    if (!enumerate(R, {"a", ".", "\"", "\\", " ", "#", "~", "{", "\xD0\x96", "\x01"}, R.a.thorough ? 6 : 5, &t2, [&](const Bytes &b) { return check_local(R, b); })) return;
    if (!enumerate(R, {"a", "\"", " ", "\xD0\x96", "\xE2\x82\xAC", "\xFF", "\\", "\n"}, R.a.thorough ? 7 : 6, &t3, [&](const Bytes &b) { return check_local(R, b); })) return;
    for (int x = 1; x < 256; x++) for (const Bytes &l : {Bytes(1, (char) x), "a" + Bytes(1, (char) x) + "b", "\"" + Bytes(1, (char) x) + "\"", "\"\\" + Bytes(1, (char) x) + "\"", "a." + Bytes(1, (char) x)}) { auto f = check_local(R, l); if (f && !R.fail(*f)) return; }
    for (size_t n = 200; n <= (R.a.thorough ? 2100u : 600u); n += (n % 256 >= 250 || n % 256 <= 6) ? 1 : 17)
        for (const char *u : {"a", "\xD0\x96"}) for (const Bytes &b : gen::long_local_shapes(n, u)) { if ((int) (hashs(b) % R.a.nworkers) != R.a.worker) continue; auto f = check_local(R, b); if (f && !R.fail(*f)) return; }
    R.space("C17 local parts: all strings <= " + std::to_string(R.a.thorough ? 6 : 5) + " over the C02 alphabet (13) and over {a . \" \\ SP # ~ { U+0416 0x01}, <= " + std::to_string(R.a.thorough ? 7 : 6) + " over {a \" SP U+0416 U+20AC 0xFF \\ LF}, every byte in 5 positions; x 9 builds x 4 scanners", t1 + t2 + t3 + 255 * 5);
}
static void stage_domains(Run &R) {
    uint64_t t1 = 0;
    if (!enumerate(R, {"a", "1", "-", ".", "_", "!"}, R.a.thorough ? 8 : 7, &t1, [&](const Bytes &b) { return check_domain(R, b); })) return;
    for (const char *d : {"a_b.com", "_a.com", "a_.com", "a._b.com", "_", "__", "_._", "a_b_c.d_e.f_g", "xn--a_b.com", "a_b.xn--p1ai", "\xD0\xBF_\xD0\xBE.\xD1\x80\xD1\x84", "a_b.\xD1\x80\xD1\x84", "old_days.example.net", "a_b", "a_b.c_m", "A_B.COM", "1_2", "1_2.3_4", "-_.com", "a-_b.com"})
        { auto f = check_domain(R, d); if (f && !R.fail(*f)) return; }
    for (size_t n : {62, 63, 64}) for (size_t pos : {(size_t) 0, n / 2, n - 1}) { Bytes l(n, 'a'); l[pos] = '_'; for (const Bytes &d : {l + ".com", "x." + l, l}) { auto f = check_domain(R, d); if (f && !R.fail(*f)) return; } }
    R.space("C17 domains: all strings <= " + std::to_string(R.a.thorough ? 8 : 7) + " over {a 1 - . _ !} + 20 underscore shapes + labels of 62-64 with '_' at 3 positions; x 9 builds", t1 + 47);
}
static void stage_addresses(Run &R) {
    uint64_t i = 0;
    for (const Bytes &l : corpus_lines(R.a.datadir)) { if ((int) (i++ % R.a.nworkers) != R.a.worker) continue; auto f = check_addr(R, l, KV[0]->default_mask()); if (f && !R.fail(*f)) return; R.count("corpus-lines"); }
    static const char *LS[] = {"a", "a#b", "\"#\"", "a~", "{x}", "\"q q\"", "\" q\"", "\"a\tb\"", "\xD0\x96", "\xD0\x96#", "\"\xD0\x96 \xD0\x96\"", "a`b", "\"a\\#\"", "#", "\"\x01\"", "a|b^c"};
    static const char *DS[] = {"b.com", "a_b.com", "_b.com", "b._c.com", "x.c_m", "\xD0\xBF\xD0\xBE\xD1\x87\xD1\x82\xD0\xB0.\xD1\x80\xD1\x84", "\xD0\xBF_\xD0\xBE.\xD1\x80\xD1\x84", "[1.2.3.4]", "localhost", "under_score.example.net", "b"};
    for (const char *l : LS) for (const char *d : DS) { if ((int) (i++ % R.a.nworkers) != R.a.worker) continue; auto f = check_addr(R, Bytes(l) + "@" + d, 0x7ff); if (f && !R.fail(*f)) return; }
}
static void stage_random(Run &R) {
    rc_run(R, "C17 generated inputs across the nine builds", 3.0, [&](Src &s) -> std::optional<Failure> {
        uint32_t k = s.pick(6);
        if (k < 2) { int m = (int) s.pick(4); Bytes l = s.chance(1, 2) ? gen::local_valid(s, m) : gen::local_any(s, m); if (s.chance(1, 3)) { static const char r[] = "#^`{|}~"; l.insert(s.pick((uint32_t) l.size() + 1), 1, r[s.pick(7)]); } for (auto &c : l) if (c == 0) c = 1; return check_local(R, l); }
        if (k < 4) { Bytes d = s.chance(1, 2) ? gen::host_mutated(s, &KV[0]->T.alist) : gen::idn_host(s, &KV[0]->T.idn_u, &KV[0]->T.alist); if (s.chance(1, 2) && !d.empty()) d[s.pick((uint32_t) d.size())] = '_'; for (auto &c : d) if (c == 0) c = 1; return check_domain(R, d); }
        Bytes a = gen_address(s, KV[0]->T);
        if (s.chance(1, 3)) { size_t at = a.rfind('@'); if (at != Bytes::npos && at + 2 < a.size()) a[at + 1 + s.pick((uint32_t) (a.size() - at - 1))] = '_'; }
        if (s.chance(1, 3) && !a.empty()) { static const char r[] = "#^`{|}~"; a.insert(s.pick((uint32_t) a.size() / 2 + 1), 1, r[s.pick(7)]); }
        R.sample("random address", show(a), 5);
        return check_addr(R, a, s.chance(1, 2) ? KV[0]->default_mask() : (int) s.pick(2048));
    });
}

#ifndef VF_FUZZ
int main(int argc, char **argv) {
    return std_main(argc, argv, "C17", {{"locals", stage_locals}, {"domains", stage_domains}, {"addresses", stage_addresses}, {"random", stage_random}},
        [](Run &R, const Case &c) -> std::optional<Failure> { int k = (int) c.geti("kind"); Bytes x = c.getb("x"); return k == 0 ? check_local(R, x) : k == 1 ? check_domain(R, x) : check_addr(R, x, (int) c.geti("mask")); },
        [] { return g_case; },
        [](Run &R) { for (int v = 0; v < 9; v++) { KV[v] = new Core(VV[v]); if (!KV[v]->init(R.a.datadir)) return false; } return true; },
        [] { for (int v = 0; v < 9; v++) delete KV[v]; });
}
#else
VF_FUZZ_TARGET("C17", [](Run &R) { for (int v = 0; v < 9; v++) { KV[v] = new Core(VV[v]); if (!KV[v]->init(R.a.datadir)) return false; } return true; },
    [](Run &R, const uint8_t *d, size_t n) -> std::optional<Failure> {
        if (n < 2) return std::nullopt;
        int kind = d[n - 1] % 3; Bytes x = fuzz_bytes(d, n - 1); if (x.empty()) return std::nullopt;
        R.sample("fuzz", show(x.substr(0, 80)), 4);
        return kind == 0 ? check_local(R, x) : kind == 1 ? check_domain(R, x) : check_addr(R, x, KV[0]->default_mask()); })
#endif
