// C05 — address literals: only [IPv4] or [IPv6:addr], nothing trailing, family reported.
// Oracle: two-sided bound (oracle/ref.hpp::literal): everything outside the upper
// bound (exactly '[' addr ']', addr = dotted quad <= 255 or [IPv6:]RFC 4291 text) must
// be rejected; everything inside the lower bound (RFC 5321 4.1.3, non-zero first
// octet) must be accepted in every mode; nothing is demanded in between.
#include "../harness/rc_glue.hpp"
#include "../harness/gen.hpp"
#include "../harness/litshapes.hpp"
#include "../harness/lib.hpp"

using namespace vf;
extern "C" const vapi dflt_api;
static const vapi *A = &dflt_api;
static TailBuf TB(4096);
static const Bytes *g_bytes;
static Obj *OBJ[4];

static Case mkcase(const Bytes &d) { Case c; c.b("domain", d); return c; }

static std::string classify(const Bytes &d, const ref::Lit &L, const v_outcome &o) {
    if (o.ret == 1 && !L.upper) {
        size_t rb = d.rfind(']');
        if (rb != Bytes::npos && rb + 1 != d.size()) return "bytes-after-bracket";
        Bytes c = d.size() >= 2 ? d.substr(1, d.size() - 2) : Bytes();
        size_t col = c.find(':');
        if (col != Bytes::npos && !ref::has_tag(c, true)) { Bytes rest = c.substr(col + 1); int f; if (ref::quad(rest, false, &f) || ref::ipv6_4291(rest)) return "foreign-tag"; }
        if (ref::has_tag(c, true) && ref::quad(c.substr(5), false, nullptr)) return "ipv4-under-ipv6-tag";
        if (!c.empty() && c.back() == '.') return "trailing-dot";
        return "accepts-malformed-literal";
    }
    if (o.ret != 1 && L.lower) return "rejects-valid-literal";
    return "wrong-family-flag";
}

static std::optional<Failure> judge(const Bytes &d, const ref::Lit &L, const v_outcome &o, const std::string &how) {
    bool acc = how[0] == 'd' ? (o.rc == 0) : (o.ret == 1);
    v_outcome oo = o; oo.ret = acc;
    if (acc && !L.upper)
        return Failure{classify(d, L, oo), mkcase(d).str(), how + ": domain '" + show(d) + "' is not exactly '[' addr ']' with a valid address, but was accepted: " + outcome_str(o)};
    if (!acc && L.lower)
        return Failure{"rejects-valid-literal", mkcase(d).str(), how + ": literal '" + show(d) + "' is inside the RFC 5321 4.1.3 grammar but was rejected: " + outcome_str(o)};
    if (acc) {
        bool ok = L.family == 4 ? (o.is_ipv4 && !o.is_ipv6 && !o.is_domain) : (o.is_ipv6 && !o.is_ipv4 && !o.is_domain);
        if (!ok) return Failure{"wrong-family-flag", mkcase(d).str(), how + ": accepted literal '" + show(d) + "' holds an IPv" + std::to_string(L.family) + " address but flags are " + outcome_str(o)};
    }
    return std::nullopt;
}

static std::optional<Failure> check_one(Run &R, const Bytes &d) {
    g_bytes = &d;
    if (d.empty() || d.find('@') != Bytes::npos) return std::nullopt;
    Bytes addr = "x@" + d;
    if (d[0] != '[') {
        // bytes before the bracket: host-name path, a '[' or ']' can never be part of a host name
        if (d.find_first_of("[]") == Bytes::npos) return std::nullopt;
        for (int m = 0; m < 4; m++) {
            v_outcome o = OBJ[m]->is_email_tail(TB, addr); R.eval();
            if (o.ret == 1) return Failure{"bracket-in-hostname", mkcase(d).str(), "domain '" + show(d) + "' (bracket not first) accepted in mode " + ref::MODE_NAME[m] + ": " + outcome_str(o)};
        }
        R.count("bytes-before-bracket");
        return std::nullopt;
    }
    ref::Lit L = ref::literal(d);
    if (d.size() >= 7) R.nontrivial(hashs(d));
    R.count(L.lower ? (L.family == 4 ? "lower-v4" : "lower-v6") : L.upper ? (L.family == 4 ? "between-v4" : "between-v6") : "outside-upper");
    if (L.lower && L.family == 6) R.sample("must-accept v6", show(d), 4);
    if (!L.upper) R.sample("must-reject", show(d), 6);
    for (int m = 0; m < 4; m++) {
        v_outcome o = OBJ[m]->is_email_tail(TB, addr); R.eval();
        if (auto f = judge(d, L, o, std::string("eav_is_email mode ") + ref::MODE_NAME[m] + " tld on")) return f;
        v_outcome o2 = email_direct(A, TB, m, addr, 0); R.eval();
        if (auto f = judge(d, L, o2, std::string("direct is_") + ref::MODE_NAME[m] + "_email tld off")) return f;
        if ((o.ret == 1) != (o2.rc == 0))
            return Failure{"literal-subject-to-tld-policy", mkcase(d).str(), "literal '" + show(d) + "' decided differently with TLD checking on (" + outcome_str(o) + ") and off (" + outcome_str(o2) + ")"};
    }
    return std::nullopt;
}
static bool run_one(Run &R, const Bytes &b) { auto f = check_one(R, b); return !(f && !R.fail(*f)); }

static void stage_shapes(Run &R) {
    uint64_t total = 0, idx = 0;
    auto go = [&](const Bytes &b) -> bool { total++; if ((int) (idx++ % R.a.nworkers) != R.a.worker) return true; return run_one(R, b); };
    if (!lit::shapes(R.a.thorough, go)) return;
    R.space("C05 IPv6 shapes (before 0-8 x after 0-8 x '::' 0-2 x v4 tail x widths {1,4,5,0} x tags), octet values 0-300 x 4 positions x 4 frames, dot/digit shapes, bytes after ']' / before '['", total);
}

static void stage_bounded(Run &R) {
    static const char AL[] = {'1', 'a', ':', '.', ']', '[', 'g'};
    const int K = sizeof AL;
    int maxlen = R.a.thorough ? 8 : 6;
    uint64_t total = 0, idx = 0;
    std::vector<int> d(maxlen, 0);
    for (int len = 0; len <= maxlen; len++) {
        uint64_t cnt = 1; for (int i = 0; i < len; i++) cnt *= K;
        std::fill(d.begin(), d.end(), 0);
        for (uint64_t n = 0; n < cnt; n++) {
            if ((int) ((idx++ / 16) % R.a.nworkers) == R.a.worker) {
                Bytes b; for (int i = 0; i < len; i++) b += AL[d[i]];
                if (!run_one(R, "[IPv6:" + b + "]")) return;
                if (!run_one(R, "[" + b + "]")) return;
                if (!run_one(R, "[1.2.3.4" + b)) return;
            }
            total += 3;
            for (int i = len - 1; i >= 0; i--) { if (++d[i] < K) break; d[i] = 0; }
        }
    }
    R.space("C05 all strings of length 0.." + std::to_string(maxlen) + " over {1 a : . ] [ g} inside [IPv6:...], inside [...], and after [1.2.3.4", total);
}

static void stage_random(Run &R) {
    rc_run(R, "C05 generated literals respect the two-sided bound", 3.0, [&](Src &s) -> std::optional<Failure> {
        Bytes d = gen::literal_any(s);
        for (auto &c : d) if (c == 0) c = 1;
        R.sample("random", show(d), 6);
        return check_one(R, d);
    });
}

static void stage_corpus(Run &R) {
    for (const char *fn : {"pass-email-ascii.txt", "fail-email-ascii.txt", "email-result-check.txt", "email-utf8.txt"}) {
        std::ifstream f(R.a.datadir + "/" + fn); std::string line;
        while (std::getline(f, line)) {
            if (!line.empty() && line.back() == '\r') line.pop_back();
            if (line.empty() || line[0] == '#' || line.find('\0') != std::string::npos) continue;
            size_t at = line.rfind('@'); if (at == std::string::npos) continue;
            Bytes d = line.substr(at + 1); if (d.find('[') == Bytes::npos) continue;
            if (!run_one(R, d)) return;
            R.count("corpus-lines");
        }
    }
}

#ifndef VF_FUZZ
int main(int argc, char **argv) {
    Run R; R.a = parse_args(argc, argv); R.prop = "C05";
    install_death(R.a); WatchdogGuard wdg; install_watchdog(&R.evaluations, R.a.stage == "huge" ? 60 : 10);
    inflight() = [] { return g_bytes ? mkcase(*g_bytes).str() : std::string(); };
    for (int m = 0; m < 4; m++) { OBJ[m] = new Obj(A); if (OBJ[m]->configure(m, 1) != 0) return 2; }
    int rcode;
    if (!R.a.replay.empty()) {
        auto f = check_one(R, Case::parse(R.a.replay).getb("domain"));
        if (f) { printf("REPLAY-FAIL %s: %s\n", f->cls.c_str(), f->explain.c_str()); rcode = 3; } else { printf("REPLAY-PASS\n"); rcode = 0; }
    } else {
        if (R.a.stage == "shapes") stage_shapes(R);
        else if (R.a.stage == "bounded") stage_bounded(R);
        else if (R.a.stage == "random") stage_random(R);
        else if (R.a.stage == "corpus") stage_corpus(R);
        else { fprintf(stderr, "unknown stage %s\n", R.a.stage.c_str()); return 2; }
        rcode = finish(R);
    }
    for (int m = 0; m < 4; m++) delete OBJ[m];
    return rcode;
}
#else
VF_FUZZ_TARGET("C05", [](Run &) { for (int m = 0; m < 4; m++) { OBJ[m] = new Obj(A); if (OBJ[m]->configure(m, 1) != 0) return false; } return true; },
    [](Run &R, const uint8_t *d, size_t n) -> std::optional<Failure> { Bytes x = fuzz_bytes(d, n); if (x.empty()) return std::nullopt; if (x[0] != '[' && (n % 4) != 0) x = "[" + x; R.sample("fuzz", show(x.substr(0, 80)), 4); return check_one(R, x); })
#endif
