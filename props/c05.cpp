// C05 — address literals: only [IPv4] or [IPv6:addr], nothing trailing, family reported.
// Oracle: two-sided bound (oracle/ref.hpp::literal): everything outside the upper
// bound (exactly '[' addr ']', addr = dotted quad <= 255 or [IPv6:]RFC 4291 text) must
// be rejected; everything inside the lower bound (RFC 5321 4.1.3, non-zero first
// octet) must be accepted in every mode; nothing is demanded in between.
#include "../harness/rc_glue.hpp"
#include "../harness/gen.hpp"
#include "../harness/lib.hpp"

using namespace vf;
extern "C" const vapi dflt_api;
static const vapi *A = &dflt_api;
static TailBuf TB(4096);
static const Bytes *g_bytes;
static Obj *OBJ[4];

static Case mkcase(const Bytes &d) { Case c; c.b("domain", d); return c; }

static std::string classify(const Bytes &d, const ref::Lit &L, const v_outcome &o) {
    if (o.ret == 1 && !L.upper) {
        size_t rb = d.rfind(']');
        if (rb != Bytes::npos && rb + 1 != d.size()) return "bytes-after-bracket";
        Bytes c = d.size() >= 2 ? d.substr(1, d.size() - 2) : Bytes();
        size_t col = c.find(':');
        if (col != Bytes::npos && !ref::has_tag(c, true)) { Bytes rest = c.substr(col + 1); int f; if (ref::quad(rest, false, &f) || ref::ipv6_4291(rest)) return "foreign-tag"; }
        if (ref::has_tag(c, true) && ref::quad(c.substr(5), false, nullptr)) return "ipv4-under-ipv6-tag";
        if (!c.empty() && c.back() == '.') return "trailing-dot";
        return "accepts-malformed-literal";
    }
    if (o.ret != 1 && L.lower) return "rejects-valid-literal";
    return "wrong-family-flag";
}

static std::optional<Failure> judge(const Bytes &d, const ref::Lit &L, const v_outcome &o, const std::string &how) {
    bool acc = how[0] == 'd' ? (o.rc == 0) : (o.ret == 1);
    v_outcome oo = o; oo.ret = acc;
    if (acc && !L.upper)
        return Failure{classify(d, L, oo), mkcase(d).str(), how + ": domain '" + show(d) + "' is not exactly '[' addr ']' with a valid address, but was accepted: " + outcome_str(o)};
    if (!acc && L.lower)
        return Failure{"rejects-valid-literal", mkcase(d).str(), how + ": literal '" + show(d) + "' is inside the RFC 5321 4.1.3 grammar but was rejected: " + outcome_str(o)};
    if (acc) {
        bool ok = L.family == 4 ? (o.is_ipv4 && !o.is_ipv6 && !o.is_domain) : (o.is_ipv6 && !o.is_ipv4 && !o.is_domain);
        if (!ok) return Failure{"wrong-family-flag", mkcase(d).str(), how + ": accepted literal '" + show(d) + "' holds an IPv" + std::to_string(L.family) + " address but flags are " + outcome_str(o)};
    }
    return std::nullopt;
}

static std::optional<Failure> check_one(Run &R, const Bytes &d) {
    g_bytes = &d;
    if (d.empty() || d.find('@') != Bytes::npos) return std::nullopt;
    Bytes addr = "x@" + d;
    if (d[0] != '[') {
        // bytes before the bracket: host-name path, a '[' or ']' can never be part of a host name
        if (d.find_first_of("[]") == Bytes::npos) return std::nullopt;
        for (int m = 0; m < 4; m++) {
            v_outcome o = OBJ[m]->is_email_tail(TB, addr); R.eval();
            if (o.ret == 1) return Failure{"bracket-in-hostname", mkcase(d).str(), "domain '" + show(d) + "' (bracket not first) accepted in mode " + ref::MODE_NAME[m] + ": " + outcome_str(o)};
        }
        R.count("bytes-before-bracket");
        return std::nullopt;
    }
    ref::Lit L = ref::literal(d);
    if (d.size() >= 7) R.nontrivial(hashs(d));
    R.count(L.lower ? (L.family == 4 ? "lower-v4" : "lower-v6") : L.upper ? (L.family == 4 ? "between-v4" : "between-v6") : "outside-upper");
    if (L.lower && L.family == 6) R.sample("must-accept v6", show(d), 4);
    if (!L.upper) R.sample("must-reject", show(d), 6);
    for (int m = 0; m < 4; m++) {
        v_outcome o = OBJ[m]->is_email_tail(TB, addr); R.eval();
        if (auto f = judge(d, L, o, std::string("eav_is_email mode ") + ref::MODE_NAME[m] + " tld on")) return f;
        v_outcome o2 = email_direct(A, TB, m, addr, 0); R.eval();
        if (auto f = judge(d, L, o2, std::string("direct is_") + ref::MODE_NAME[m] + "_email tld off")) return f;
        if ((o.ret == 1) != (o2.rc == 0))
            return Failure{"literal-subject-to-tld-policy", mkcase(d).str(), "literal '" + show(d) + "' decided differently with TLD checking on (" + outcome_str(o) + ") and off (" + outcome_str(o2) + ")"};
    }
    return std::nullopt;
}
static bool run_one(Run &R, const Bytes &b) { auto f = check_one(R, b); return !(f && !R.fail(*f)); }

static Bytes grp(int w, int i) { static const char *H = "123456789abcdefABCDEF0"; Bytes g; for (int k = 0; k < w; k++) g += H[(i * 3 + k * 5) % 22]; return g; }

static void stage_shapes(Run &R) {
    uint64_t total = 0, idx = 0;
    auto go = [&](const Bytes &b) -> bool { total++; if ((int) (idx++ % R.a.nworkers) != R.a.worker) return true; return run_one(R, b); };
    static const char *TAGS[] = {"IPv6:", "", "ipv6:", "foo:", "IPv4:", ":"};
    static const int WID[] = {1, 4, 5, 0};
    int ntags = R.a.thorough ? 6 : 4;
    for (int before = 0; before <= 8; before++) for (int after = 0; after <= 8; after++) for (int nulls = 0; nulls <= 2; nulls++)
        for (int tail = 0; tail < 2; tail++) for (int wi = 0; wi < 4; wi++) for (int t = 0; t < ntags; t++) {
            if (nulls == 0 && after > 0) continue;
            Bytes a;
            for (int i = 0; i < before; i++) { if (i) a += ':'; a += grp(i == before / 2 ? WID[wi] : 1 + (i % 4), i); }
            if (nulls >= 1) { a += "::"; for (int i = 0; i < after; i++) { if (i) a += ':'; a += grp(i == 0 ? WID[wi] : 1 + (i % 4), i + 3); } }
            if (nulls >= 2) a += "::1";
            if (tail) { if (!a.empty() && a.back() != ':') a += ':'; a += "192.0.2.128"; }
            if (!go("[" + Bytes(TAGS[t]) + a + "]")) return;
        }
    // every octet value 0..300 in every position, bare and as IPv6 tail
    for (int pos = 0; pos < 4; pos++) for (int v = 0; v <= 300; v++) {
        Bytes q; for (int i = 0; i < 4; i++) { if (i) q += '.'; q += i == pos ? std::to_string(v) : std::to_string(7 + i); }
        for (const Bytes &d : {"[" + q + "]", "[IPv6:::ffff:" + q + "]", "[IPv6:1:2:3:4:5:6:" + q + "]", "[0" + q + "]"}) if (!go(d)) return;
    }
    // longest spellings: every combination of group widths {1,4} for IPv6-full (8 groups) and IPv6v4-full (6 groups + quad with 1- or
    // 3-digit octets), tagged and untagged: literal lengths up to 46 / 52 octets must all be accepted
    for (int mask = 0; mask < 256; mask++) {
        Bytes a; for (int i = 0; i < 8; i++) { if (i) a += ':'; a += (mask >> i) & 1 ? "fedc" : "1"; }
        if (!go("[IPv6:" + a + "]")) return; if ((mask & 15) == 0 && !go("[" + a + "]")) return;
        if (mask < 64) for (const char *q : {"1.2.3.4", "255.255.255.255", "192.0.2.128", "100.20.3.255"}) {
            Bytes b; for (int i = 0; i < 6; i++) { if (i) b += ':'; b += (mask >> i) & 1 ? "fedc" : "0"; }
            if (!go("[IPv6:" + b + ":" + q + "]")) return; if ((mask & 7) == 7 && !go("[" + b + ":" + q + "]")) return;
        }
    }
    for (int before = 0; before <= 4; before++) for (int after = 0; before + after <= 4; after++) for (const char *q : {"9.8.7.6", "255.255.255.255"}) {   // IPv6v4-comp, full-width groups
        Bytes a; for (int i = 0; i < before; i++) { a += "abcd"; if (i + 1 < before) a += ':'; } a += "::"; for (int i = 0; i < after; i++) { a += "ef01:"; } a += q;
        if (!go("[IPv6:" + a + "]")) return;
    }
    // every byte value at each of the five positions of the tag (only the case variants of "IPv6:" are a tag)
    for (int pos = 0; pos < 5; pos++) for (int x = 1; x < 256; x++) { if (x == '@') continue; Bytes tag = "IPv6:"; tag[pos] = (char) x;
        for (const char *a : {"2001:db8::1", "1:2:3:4:5:6:7:8", "::ffff:1.2.3.4"}) if (!go("[" + tag + a + "]")) return; }
    // octets far beyond the range: values that wrap to <= 255 modulo 2^8, 2^16, 2^31, 2^32, 2^64 when accumulated in a
    // narrow or overflowing integer, long zero-padded and long all-nine runs
    static const char *BIG[] = {"256", "257", "511", "512", "65536", "65537", "65791", "2147483648", "2147483649", "4294967295", "4294967296", "4294967297", "4294967551", "4294967552",
                                "8589934593", "9999999999", "18446744073709551615", "18446744073709551616", "18446744073709551617", "18446744073709551871", "340282366920938463463374607431768211457",
                                "00000000000000000000000000000000000000001", "0000000000255", "0000000000256", "99999999999999999999999999999999", "1e3", "0x10", "1_0"};
    for (int pos = 0; pos < 4; pos++) for (const char *b : BIG) {
        Bytes q; for (int i = 0; i < 4; i++) { if (i) q += '.'; q += i == pos ? Bytes(b) : std::to_string(9 + i); }
        for (const Bytes &d : {"[" + q + "]", "[IPv6:::ffff:" + q + "]", "[IPv6:1:2:3:4:5:6:" + q + "]"}) if (!go(d)) return;
    }
    for (const char *g : {"10000", "00000", "fffff", "0ffff", "123456789", "ffffffffffffffff1", "-1", "+1", " 1"}) for (int pos : {0, 3, 7})
        { Bytes a; for (int i = 0; i < 8; i++) { if (i) a += ':'; a += i == pos ? Bytes(g) : Bytes("1"); } if (!go("[IPv6:" + a + "]")) return; }
    // digit counts and dot placement
    for (const char *q : {"1.2.3", "1.2.3.4.5", "1.2.3.4.", ".1.2.3.4", "1..2.3.4", "1.2.3.4..", "001.002.003.004", "0001.2.3.4", "1.2.3.0004", "256.1.1.1", "1.2.3.256", "0.0.0.0", "0.1.2.3", "1.2.3.4", "255.255.255.255",
                          "1.2.3.4a", "a.b.c.d", "1.2.3.-4", "1.2.3.+4", " 1.2.3.4", "1.2.3.4 ", "1,2,3,4", "0x1.2.3.4", "1.2.3.4/8", "12345678", "1.2.3.4\t"})
        for (const Bytes &d : {"[" + Bytes(q) + "]", "[IPv6:::" + Bytes(q) + "]", "[IPv6:" + Bytes(q) + "]", "[IPv4:" + Bytes(q) + "]"}) if (!go(d)) return;
    // bytes after ']' and before '['
    static const unsigned char SB[] = {'x', '.', ']', '[', ' ', ':', '1', '\t', 0x80, '@' + 1, 'c', '-'};
    for (const char *base : {"[1.2.3.4]", "[IPv6:::1]", "[IPv6:1:2:3:4:5:6:7:8]", "[2001:db8::1]", "[abcdefgh]"}) {
        for (unsigned char x : SB) { if (!go(Bytes(base) + (char) x)) return; if (!go(Bytes(1, (char) x) + base)) return;
            for (unsigned char y : SB) { if (!go(Bytes(base) + (char) x + (char) y)) return; for (unsigned char z : {(unsigned char) ']', (unsigned char) '2', (unsigned char) '.'}) if (!go(Bytes(base) + (char) x + (char) y + (char) z)) return; } }
        if (!go(Bytes(base) + ".com")) return; if (!go(Bytes(base) + ":1:2")) return; if (!go("[" + Bytes(base))) return; if (!go(Bytes(base) + "]")) return;
        Bytes nb = base; nb.pop_back(); if (!go(nb)) return;
    }
    R.space("C05 IPv6 shapes (before 0-8 x after 0-8 x '::' 0-2 x v4 tail x widths {1,4,5,0} x tags), octet values 0-300 x 4 positions x 4 frames, dot/digit shapes, bytes after ']' / before '['", total);
}

static void stage_bounded(Run &R) {
    static const char AL[] = {'1', 'a', ':', '.', ']', '[', 'g'};
    const int K = sizeof AL;
    int maxlen = R.a.thorough ? 8 : 6;
    uint64_t total = 0, idx = 0;
    std::vector<int> d(maxlen, 0);
    for (int len = 0; len <= maxlen; len++) {
        uint64_t cnt = 1; for (int i = 0; i < len; i++) cnt *= K;
        std::fill(d.begin(), d.end(), 0);
        for (uint64_t n = 0; n < cnt; n++) {
            if ((int) ((idx++ / 16) % R.a.nworkers) == R.a.worker) {
                Bytes b; for (int i = 0; i < len; i++) b += AL[d[i]];
                if (!run_one(R, "[IPv6:" + b + "]")) return;
                if (!run_one(R, "[" + b + "]")) return;
                if (!run_one(R, "[1.2.3.4" + b)) return;
            }
            total += 3;
            for (int i = len - 1; i >= 0; i--) { if (++d[i] < K) break; d[i] = 0; }
        }
    }
    R.space("C05 all strings of length 0.." + std::to_string(maxlen) + " over {1 a : . ] [ g} inside [IPv6:...], inside [...], and after [1.2.3.4", total);
}

static void stage_random(Run &R) {
    rc_run(R, "C05 generated literals respect the two-sided bound", 3.0, [&](Src &s) -> std::optional<Failure> {
        Bytes d = gen::literal_any(s);
        for (auto &c : d) if (c == 0) c = 1;
        R.sample("random", show(d), 6);
        return check_one(R, d);
    });
}

static void stage_corpus(Run &R) {
    for (const char *fn : {"pass-email-ascii.txt", "fail-email-ascii.txt", "email-result-check.txt", "email-utf8.txt"}) {
        std::ifstream f(R.a.datadir + "/" + fn); std::string line;
        while (std::getline(f, line)) {
            if (!line.empty() && line.back() == '\r') line.pop_back();
            if (line.empty() || line[0] == '#' || line.find('\0') != std::string::npos) continue;
            size_t at = line.rfind('@'); if (at == std::string::npos) continue;
            Bytes d = line.substr(at + 1); if (d.find('[') == Bytes::npos) continue;
            if (!run_one(R, d)) return;
            R.count("corpus-lines");
        }
    }
}

#ifndef VF_FUZZ
int main(int argc, char **argv) {
    Run R; R.a = parse_args(argc, argv); R.prop = "C05";
    install_death(R.a);
    inflight() = [] { return g_bytes ? mkcase(*g_bytes).str() : std::string(); };
    for (int m = 0; m < 4; m++) { OBJ[m] = new Obj(A); if (OBJ[m]->configure(m, 1) != 0) return 2; }
    int rcode;
    if (!R.a.replay.empty()) {
        auto f = check_one(R, Case::parse(R.a.replay).getb("domain"));
        if (f) { printf("REPLAY-FAIL %s: %s\n", f->cls.c_str(), f->explain.c_str()); rcode = 3; } else { printf("REPLAY-PASS\n"); rcode = 0; }
    } else {
        if (R.a.stage == "shapes") stage_shapes(R);
        else if (R.a.stage == "bounded") stage_bounded(R);
        else if (R.a.stage == "random") stage_random(R);
        else if (R.a.stage == "corpus") stage_corpus(R);
        else { fprintf(stderr, "unknown stage %s\n", R.a.stage.c_str()); return 2; }
        rcode = finish(R);
    }
    for (int m = 0; m < 4; m++) delete OBJ[m];
    return rcode;
}
#else
VF_FUZZ_TARGET("C05", [](Run &) { for (int m = 0; m < 4; m++) { OBJ[m] = new Obj(A); if (OBJ[m]->configure(m, 1) != 0) return false; } return true; },
    [](Run &R, const uint8_t *d, size_t n) -> std::optional<Failure> { Bytes x = fuzz_bytes(d, n); if (x.empty()) return std::nullopt; if (x[0] != '[' && (n % 4) != 0) x = "[" + x; R.sample("fuzz", show(x.substr(0, 80)), 4); return check_one(R, x); })
#endif
