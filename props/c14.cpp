// C14 — thread safety: concurrent validation equals sequential validation, no data races.
// ThreadSanitizer build of the library and of this harness.  A workload (2-16 threads, each
// with its own eav_t plus stateless validators on SHARED read-only strings, generated yield
// points) is decoded from an entropy string, executed sequentially (reference logs), then
// concurrently from a barrier three times with different yield patterns.
// Oracles: (i) TSan reports nothing (halt_on_error, exit code); (ii) every thread's outcome
// log equals its sequential log.
#include "../harness/rc_glue.hpp"
#include "../harness/addrcore.hpp"
#include <pthread.h>
#include <sched.h>
#include <atomic>

using namespace vf;
extern "C" const vapi tsan_api;
static const vapi *A = &tsan_api;
static std::string g_case;
static std::vector<Bytes> SHARED;            // read-only after start-up
static std::vector<size_t> SHARED_AT;        // position of the last '@' (or npos)

struct TOp { uint8_t kind; uint8_t a, b; uint16_t idx; bool yield; };
struct TLog { std::vector<uint64_t> v; };
struct Work { int nthreads; std::vector<std::vector<TOp>> ops; };

static size_t N_SPECIAL = 0;   // the last N_SPECIAL entries of SHARED are hand-picked (reserved names, root dots, literals, IDN)
static Work decode(Src &s) {
    Work w; w.nthreads = 2 + (int) s.pick(15);
    uint32_t base = 120 + s.pick(200);
    // half of the workloads concentrate on a hot subset of 2-6 hand-picked strings, so that many threads are inside the same
    // rarely taken branch at the same time
    bool hot = s.chance(1, 2); uint32_t hotn = 2 + s.pick(5), hot0 = N_SPECIAL ? s.pick((uint32_t) N_SPECIAL) : 0;
    for (int t = 0; t < w.nthreads; t++) {
        std::vector<TOp> v; uint32_t n = base + s.pick(60);
        v.push_back({1, (uint8_t) s.pick(4), 0, 0, false});
        for (uint32_t i = 0; i < n; i++) {
            TOp o; uint32_t k = s.pick(16);
            o.kind = k < 8 ? 0 : k < 10 ? 1 : k < 11 ? 2 : k < 12 ? 3 : k < 14 ? 4 : 5;
            o.a = (uint8_t) s.pick(4); o.b = (uint8_t) s.pick(2); o.idx = (uint16_t) s.pick((uint32_t) SHARED.size()); o.yield = s.chance(1, 12);
            if (hot && N_SPECIAL && s.chance(3, 4)) o.idx = (uint16_t) (SHARED.size() - N_SPECIAL + (hot0 + s.pick(hotn)) % N_SPECIAL);
            if (o.kind == 3) o.idx = (uint16_t) s.pick(2048);
            if (o.kind == 4) o.a = (uint8_t) s.pick(11);
            v.push_back(o);
        }
        w.ops.push_back(v);
    }
    return w;
}

static uint64_t digest(const v_outcome &x) {
    uint64_t h = hashb(x.errstr, strlen(x.errstr), 7);
    int f[8] = {x.ret, x.errcode, x.rc, x.idn_rc, x.is_ipv4, x.is_ipv6, x.is_domain, x.errstr_null};
    return hashb(f, sizeof f, h);
}

// executes one thread's list on its own object; rep selects the yield pattern
static void exec_list(const std::vector<TOp> &ops, TLog &log, int rep, std::atomic<long> *validations) {
    Obj o(A);
    bool ok = false;
    for (size_t i = 0; i < ops.size(); i++) {
        const TOp &op = ops[i];
        if (rep > 0 && (op.yield || (rep == 2 && i % 5 == 0) || (rep == 3 && i % 2 == 1))) sched_yield();
        const Bytes &s = SHARED[op.idx % SHARED.size()]; size_t at = SHARED_AT[op.idx % SHARED.size()];
        switch (op.kind) {
        case 0: if (ok) { v_outcome x; A->obj_is_email(o.p, s.c_str(), s.size(), &x); log.v.push_back(digest(x)); if (validations) (*validations)++; } break;
        case 1: A->obj_set_mode(o.p, op.a); ok = A->obj_setup(o.p) == 0; log.v.push_back(ok); break;
        case 2: A->obj_set_tld(o.p, op.b); break;
        case 3: A->obj_set_allow(o.p, op.idx); break;
        case 4: { // stateless per-part validator directly on the shared string
            int which = op.a % 11; const char *b = s.c_str(), *e = b + s.size(); int r;
            if (which <= VP_6531_LOCAL) r = A->part(which, b, at == Bytes::npos ? e : b + at, 0, nullptr);
            else { const char *d = at == Bytes::npos ? b : b + at + 1; int ir = 0;
                   if ((which == VP_IPV4 || which == VP_IPV6 || which == VP_IPADDR) && *d == '[' && e > d + 1 && e[-1] == ']') r = A->part(which, d + 1, e - 1, 0, nullptr);
                   else if (which == VP_TLD) { const char *dot = strrchr(d, '.'); r = A->part(VP_TLD, dot ? dot + 1 : d, e, 0, nullptr); }
                   else if (which == VP_SPECIAL) r = A->part(VP_ASCII_DOMAIN, d, e, 0, nullptr) == 0 ? A->part(VP_SPECIAL, d, e, 0, nullptr) : -1;
                   else if (which == VP_UTF8_DOMAIN) r = A->part(VP_UTF8_DOMAIN, d, (op.yield && e - d >= 3) ? e - 1 : e, op.b, &ir) * 1000 + ir;   // sometimes a range that stops before the terminator
                   else r = A->part(VP_ASCII_DOMAIN, d, e, 0, nullptr); }
            log.v.push_back((uint64_t) (int64_t) r); if (validations) (*validations)++;
        } break;
        default: { v_outcome x; A->email_direct(op.a, s.c_str(), s.size(), op.b, &x); log.v.push_back(digest(x)); if (validations) (*validations)++; }
        }
    }
}

struct TArg { const std::vector<TOp> *ops; TLog log; int rep; pthread_barrier_t *bar; std::atomic<long> *val; };
static void *thread_main(void *p) { TArg *a = (TArg *) p; pthread_barrier_wait(a->bar); exec_list(*a->ops, a->log, a->rep, a->val); return nullptr; }

// Runs one workload in THIS process: concurrently first (three repetitions), then sequentially for the
// reference logs — so that lazily initialised state, if any, is first touched by racing threads.
static std::optional<Failure> run_work(Run &R, const std::vector<uint8_t> &ent, bool *nontrivial = nullptr) {
    Case cs; cs.b("ent", Bytes((const char *) ent.data(), ent.size())); g_case = cs.str();
    Src s(ent); s.expand = true; Work w = decode(s);
    long minval = 1 << 30;
    std::vector<std::vector<TLog>> logs(3, std::vector<TLog>(w.nthreads));
    for (int rep = 1; rep <= 3; rep++) {
        pthread_barrier_t bar; pthread_barrier_init(&bar, nullptr, w.nthreads);
        std::vector<TArg> args(w.nthreads); std::vector<pthread_t> th(w.nthreads); std::vector<std::atomic<long>> vals(w.nthreads);
        for (int t = 0; t < w.nthreads; t++) { vals[t] = 0; args[t].ops = &w.ops[t]; args[t].rep = rep; args[t].bar = &bar; args[t].val = &vals[t]; pthread_create(&th[t], nullptr, thread_main, &args[t]); }
        for (int t = 0; t < w.nthreads; t++) pthread_join(th[t], nullptr);
        pthread_barrier_destroy(&bar);
        for (int t = 0; t < w.nthreads; t++) { R.eval(args[t].log.v.size()); minval = std::min(minval, (long) vals[t]); logs[rep - 1][t] = args[t].log; }
    }
    std::vector<TLog> ref(w.nthreads);
    for (int t = 0; t < w.nthreads; t++) exec_list(w.ops[t], ref[t], 0, nullptr);
    for (int rep = 1; rep <= 3; rep++) for (int t = 0; t < w.nthreads; t++)
        if (logs[rep - 1][t].v != ref[t].v) {
            size_t i = 0; while (i < ref[t].v.size() && i < logs[rep - 1][t].v.size() && ref[t].v[i] == logs[rep - 1][t].v[i]) i++;
            return Failure{"concurrent-differs-from-sequential", g_case, "thread " + std::to_string(t) + " of " + std::to_string(w.nthreads) + " (repetition " + std::to_string(rep) + "): outcome #" + std::to_string(i) + " differs from the sequential execution of the same call list"};
        }
    if (nontrivial) *nontrivial = minval >= 100;
    R.sample("workload", std::to_string(w.nthreads) + " threads x ~" + std::to_string(w.ops[0].size()) + " calls, min validations per thread " + std::to_string(minval), 4);
    return std::nullopt;
}

// Each workload runs in a freshly exec'd process (this binary with --replay): the library's state has never
// been used there, so first-use races are reachable in every workload, not only in the first one.
// (fork() without exec is not used: a TSan report in a forked multi-threaded child can deadlock in the symbolizer.)
#include <sys/wait.h>
#include <spawn.h>
#include <fcntl.h>
extern char **environ;
static std::string g_self, g_data;
static std::optional<Failure> run_work_spawned(Run &R, const std::vector<uint8_t> &ent) {
    Case cs; cs.b("ent", Bytes((const char *) ent.data(), ent.size())); g_case = cs.str();
    std::string rep = R.a.out + "/c14-child-" + std::to_string(R.a.worker) + ".txt";
    posix_spawn_file_actions_t fa; posix_spawn_file_actions_init(&fa);
    posix_spawn_file_actions_addopen(&fa, 1, rep.c_str(), O_WRONLY | O_CREAT | O_TRUNC, 0644);
    posix_spawn_file_actions_adddup2(&fa, 1, 2);
    std::string cstr = g_case, outd = R.a.out;
    char *argv[] = {(char *) g_self.c_str(), (char *) "--replay", (char *) cstr.c_str(), (char *) "--data", (char *) g_data.c_str(), (char *) "--out", (char *) outd.c_str(), (char *) "--stage", (char *) "child", nullptr};
    pid_t pid; int st = 0;
    if (posix_spawn(&pid, g_self.c_str(), &fa, nullptr, argv, environ) != 0) return Failure{"harness-error", g_case, "posix_spawn failed"};
    posix_spawn_file_actions_destroy(&fa);
    waitpid(pid, &st, 0);
    Src s(ent); s.expand = true; Work w = decode(s); uint64_t calls = 0; for (auto &v : w.ops) calls += v.size();
    R.eval(calls * 4); R.count("workloads"); R.count("threads:" + std::to_string(w.nthreads <= 4 ? 4 : w.nthreads <= 8 ? 8 : 16) + "-or-fewer");
    std::string text, all; { std::ifstream f(rep); std::string l; int n = 0; while (std::getline(f, l)) { all += l + "\n"; if (n < 14 && (l.find("ThreadSanitizer") != std::string::npos || l.find("REPLAY-FAIL") != std::string::npos || l.find(" #") != std::string::npos || l.find("rite of size") != std::string::npos || l.find("ead of size") != std::string::npos)) { text += l + " | "; n++; } } }
    if (WIFEXITED(st) && WEXITSTATUS(st) == 0) {
        if (all.find("NONTRIVIAL") != std::string::npos) R.nontrivial(hashs(g_case));
        R.sample("workload", std::to_string(w.nthreads) + " threads x ~" + std::to_string(w.ops[0].size()) + " calls each, fresh process, concurrent first", 4);
        return std::nullopt;
    }
    bool race = text.find("data race") != std::string::npos;
    return Failure{race ? "data-race" : (WIFEXITED(st) && WEXITSTATUS(st) == 3) ? "concurrent-differs-from-sequential" : "crash-in-threads", g_case,
                   std::string(race ? "ThreadSanitizer reports a data race" : "workload failed") + " (" + std::to_string(w.nthreads) + " threads, fresh process, status " + std::to_string(WIFEXITED(st) ? WEXITSTATUS(st) : -WTERMSIG(st)) + "): " + text.substr(0, 900)};
}

static void stage_workloads(Run &R) {
    rc_run(R, "C14 concurrent validation equals sequential validation (TSan build)", 6.0, [&](Src &s) -> std::optional<Failure> {
        std::vector<uint8_t> ent(s.p, s.p + s.n);
        return run_work_spawned(R, ent);
    });
}

int main(int argc, char **argv) {
    return std_main(argc, argv, "C14", {{"workloads", stage_workloads}},
        [](Run &R, const Case &c) -> std::optional<Failure> {
            Bytes b = c.getb("ent"); std::vector<uint8_t> ent(b.begin(), b.end()); bool nt = false;
            if (R.a.stage == "child") { auto f = run_work(R, ent, &nt); if (!f && nt) printf("NONTRIVIAL\n"); return f; }
            // top-level replay of a stored counterexample: a race needs its interleaving, so the workload is repeated (fresh process each
            // time) until it fails, at most 40 times; the sequential reference is deterministic, so a mismatch can only come from a race
            for (int i = 0; i < 40; i++) { auto f = run_work_spawned(R, ent); if (f) return f; }
            return std::nullopt; }, [] { return g_case; },
        [](Run &R) {
            { char buf[4096]; ssize_t n = readlink("/proc/self/exe", buf, sizeof buf - 1); if (n <= 0) return false; buf[n] = 0; g_self = buf; g_data = R.a.datadir; }
            SHARED = corpus_lines(R.a.datadir);
            if (SHARED.size() > 60000) SHARED.resize(60000);
            static const char *SPECIAL[] = {"\xD0\xB8\xD0\xB2\xD0\xB0\xD0\xBD@\xD0\xBF\xD0\xBE\xD1\x87\xD1\x82\xD0\xB0.\xD1\x80\xD1\x84", "a@mailbox.localhost", "a@example.test", "x@sub.example.org", "a@b.zzunlisted",
                "a@[IPv6:1:2:3:4:5:6:7:8]", "a@x.abarth", "\"q q\"@x.museum", "user@mail.EXAMPLE.org.", "u@example.com.", "u@Example.NET.", "u@company.info", "u@example.test", "u@www.example.com", "u@host.localhost.",
                "u@x.onion", "u@Iana.ORG", "x@y.XN--P1AI", "u@[1.2.3.4]", "u@[IPv6:::ffff:1.2.3.4]", "u@a_b.com", "u@xn--80a.test", "u@\xEF\xBD\x85xample.com", "first.last@single", "a@4.3.2.1.in-addr.arpa"};
            for (const char *x : SPECIAL) SHARED.push_back(x);
            N_SPECIAL = sizeof SPECIAL / sizeof SPECIAL[0];
            for (auto &l : SHARED) SHARED_AT.push_back(l.rfind('@'));
            return SHARED.size() > 100;
        });
}
