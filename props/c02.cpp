// C02 — ASCII local part is exactly word *("." word) under each RFC's rules.
// Oracle: ref::local_ok (independent recogniser) vs is_<mode>_local, as
// accept/reject, with the local part followed by '@' (as in every address) and
// followed by NUL (as the local-part tests call it).
#include "../harness/rc_glue.hpp"
#include "../harness/gen.hpp"
#include "../harness/lib.hpp"

using namespace vf;
extern "C" const vapi dflt_api;
#ifndef VF_FUZZ
extern "C" const vapi uchar_api;   // the same code compiled with -funsigned-char
#endif
static const vapi *A = &dflt_api;
static const int WHICH[3] = {VP_822_LOCAL, VP_5321_LOCAL, VP_5322_LOCAL};
static TailBuf TB(4096);
static int g_mode; static const Bytes *g_bytes;

static Case mkcase(int mode, const Bytes &b) { Case c; c.i("mode", mode).b("local", b); return c; }

// relaxed recogniser: as ref::local_ok but text may follow a closing quote (classifier for D1)
static bool relaxed_ok(int mode, const Bytes &b) {
    // replace every closing quote that is followed by a non-dot by quote+dot and re-judge
    Bytes o; bool inq = false, esc = false;
    for (size_t i = 0; i < b.size(); i++) {
        unsigned char c = b[i]; o += (char) c;
        if (inq) { if (esc) esc = false; else if (c == '\\') esc = true; else if (c == '"') { inq = false; if (i + 1 < b.size() && b[i + 1] != '.') o += '.'; } }
        else if (c == '"') inq = true;
    }
    return o != b && ref::local_ok((ref::Mode) mode, o);
}

static std::optional<Failure> check_one(Run &R, int mode, const Bytes &b) {
    g_mode = mode; g_bytes = &b;
    bool want = ref::local_ok((ref::Mode) mode, b);
    int rcs[2];
    for (int t = 0; t < 2; t++) {
        char *p = TB.place(b, t == 0 ? '@' : 0, t == 0 ? Bytes("d.com") : Bytes());
        rcs[t] = A->part(WHICH[mode], p, p + b.size(), 0, nullptr);
    }
    R.eval(2);
    bool nontriv = want || (b.size() >= 2 && (b[0] == '"' || ref::atext((unsigned char) b[0], (ref::Mode) mode, ref::LocalOpts())));
    if (nontriv) R.nontrivial(hashs(b, mode));
    const char *lab = want ? "accepted" : "rejected";
    R.count(std::string(ref::MODE_NAME[mode]) + ":" + lab);
    if (want && b.find('"') != Bytes::npos) { R.count("accepted-with-quoted-string"); R.sample(std::string("accepted-quoted-") + ref::MODE_NAME[mode], show(b), 2); }
    for (int t = 0; t < 2; t++) {
        bool got = rcs[t] == 0;
        if (got != want) {
            std::string cls = (!want && got && relaxed_ok(mode, b)) ? "text-after-closing-quote" : (want ? "rejects-valid-local" : "accepts-invalid-local");
            Failure f{cls, mkcase(mode, b).str(),
                      std::string("mode ") + ref::MODE_NAME[mode] + " local part '" + show(b) + "' (terminated by " + (t == 0 ? "'@'" : "NUL") + "): reference says " +
                          (want ? "valid" : "invalid") + ", is_" + ref::MODE_NAME[mode] + "_local returned " + std::to_string(rcs[t])};
            return f;
        }
    }
    if (b.size() >= 1 && b.size() <= 64) {   // the same verdict when the local part stands in an address (split at the last '@'; the domain part must not matter)
        static const char *DOMS[] = {"@d.com", "@[1.2.3.4]", "@d.com", "@[IPv6:2001:db8::1]", "@sub.example.org", "@d.com"};
        Bytes dom = DOMS[hashs(b, 5) % 6];
        v_outcome o = email_direct(A, TB, mode, b + dom, 0); R.eval();
        if ((o.rc == 0) != want)
            return Failure{want ? "address-rejects-valid-local" : "address-accepts-invalid-local", mkcase(mode, b).str(),
                           std::string("is_") + ref::MODE_NAME[mode] + "_email('" + show(b) + dom + "', TLD off) -> " + outcome_str(o) + " but the local part is " + (want ? "valid" : "invalid") + " (reference and is_" + ref::MODE_NAME[mode] + "_local agree)"};
    }
#ifndef VF_FUZZ
    { char *p = TB.place(b, '@', Bytes("d.com")); int ru = uchar_api.part(WHICH[mode], p, p + b.size(), 0, nullptr); R.eval();
      if (ru != rcs[0]) return Failure{"char-signedness", mkcase(mode, b).str(), std::string("mode ") + ref::MODE_NAME[mode] + " local part '" + show(b) + "': return code " + std::to_string(rcs[0]) + " in the default build and " + std::to_string(ru) + " when plain char is unsigned (-funsigned-char)"}; }
#endif
    if (rcs[0] != rcs[1]) // same string, different terminator: verdict and code must not depend on what follows `end`
        return Failure{"terminator-dependent", mkcase(mode, b).str(), "return code differs between '@' and NUL terminator: " + std::to_string(rcs[0]) + " vs " + std::to_string(rcs[1])};
    return std::nullopt;
}

static bool run_one(Run &R, int mode, const Bytes &b) { // false => stop
    auto f = check_one(R, mode, b);
    if (f && !R.fail(*f)) return false;
    return true;
}

// (a) automaton conformance: access string of every reference state x every byte x distinguishing suffixes
static void stage_automaton(Run &R) {
    static const char *PFX[] = {"", "a", "a.", "\"", "\"a", "\"\\", "\"a\"", "\"a\".", "\"\r", "\"\r\n", "\" ", "\"a ", "\"a\\ ", "a.\"", "\"a\\\"", "\"\t\r\n", "a.b", "\"a\n"};
    static const char SFXA[] = {'a', '.', '"', '\\', ' ', '\t', '\r', '\n', '(', 0x01, 0x7f, '@', '#', (char) 0x80};
    std::vector<Bytes> sfx; sfx.push_back("");
    for (char x : SFXA) sfx.push_back(Bytes(1, x));
    for (char x : SFXA) for (char y : SFXA) { Bytes t; t += x; t += y; sfx.push_back(t); }
    for (char x : {'"', '\\', ' ', 'a'}) for (char y : SFXA) for (char z : {'"', '.', 'a', ' '}) { Bytes t; t += x; t += y; t += z; sfx.push_back(t); }
    size_t np = sizeof PFX / sizeof PFX[0];
    uint64_t total = 0, idx = 0;
    for (int mode = 0; mode < 3; mode++)
        for (size_t p = 0; p < np; p++)
            for (int byte = 1; byte < 256; byte++, idx++) {
                total += sfx.size();
                if ((int) (idx % R.a.nworkers) != R.a.worker) continue;
                for (const Bytes &s : sfx) {
                    Bytes b = Bytes(PFX[p]) + char(byte) + s;
                    if (!run_one(R, mode, b)) return;
                }
            }
    R.space("C02 automaton suite: 3 modes x 18 state-access prefixes x 255 bytes x " + std::to_string(sfx.size()) + " suffixes", total);
}

// (b) bounded-exhaustive over a class-representative alphabet
static void stage_bounded(Run &R) {
    static const char AL[] = {'a', '.', '"', '\\', ' ', '\t', '\r', '\n', '(', 0x01, 0x7f, (char) 0x80, '#'};
    const int K = sizeof AL;
    int maxlen = R.a.thorough ? 8 : 6;
    uint64_t total = 0, idx = 0;
    // enumerate by (first two symbols) partition for the workers
    std::vector<int> d(maxlen, 0);
    for (int len = 1; len <= maxlen; len++) {
        uint64_t cnt = 1; for (int i = 0; i < len; i++) cnt *= K;
        total += cnt * 3;
        std::fill(d.begin(), d.end(), 0);
        for (uint64_t n = 0; n < cnt; n++) {
            // worker partition on the prefix block of 169 strings
            if ((int) ((idx++ / 128) % R.a.nworkers) == R.a.worker) {
                Bytes b; for (int i = 0; i < len; i++) b += AL[d[i]];
                for (int mode = 0; mode < 3; mode++) if (!run_one(R, mode, b)) return;
            }
            for (int i = len - 1; i >= 0; i--) { if (++d[i] < K) break; d[i] = 0; }
        }
    }
    R.space("C02 all strings of length 1.." + std::to_string(maxlen) + " over 13 class representatives {a . \" \\ SP HT CR LF ( 0x01 0x7f 0x80 #} x 3 modes", total);
}

// (c) grammar-based random local parts (valid by construction + mutated), via rapidcheck
static void stage_random(Run &R) {
    rc_run(R, "C02 generated local parts agree with the reference recogniser", 3.0, [&](Src &s) -> std::optional<Failure> {
        int mode = (int) s.pick(3);
        Bytes b = s.chance(1, 2) ? gen::local_valid(s, mode) : gen::local_any(s, mode);
        for (auto &c : b) if (c == 0) c = 1;
        R.count(b.size() > 64 ? "len>64" : b.size() >= 63 ? "len63-64" : "len<63");
        if (b.find('\\') != Bytes::npos) R.count("has-escape");
        if (b.find("\r\n") != Bytes::npos) R.count("has-crlf");
        R.sample("random", std::string(ref::MODE_NAME[mode]) + ": " + show(b), 6);
        // all three modes judge the same string (the generator targets one of them)
        for (int m = 0; m < 3; m++) { auto f = check_one(R, m, b); if (f) return f; }
        return std::nullopt;
    });
}

// (e) length sweep: one structural event before / after / inside runs of 1..2100 (thorough: ..8300) octets
static void stage_long(Run &R) {
    size_t maxn = R.a.thorough ? 8300 : 2100; uint64_t total = 0;
    for (size_t n = 1; n <= maxn; n++) {
        if ((int) (n % R.a.nworkers) != R.a.worker) continue;
        for (const Bytes &b : gen::long_local_shapes(n)) { total++; for (int m = 0; m < 3; m++) if (!run_one(R, m, b)) return; }
        if (n % 97 == 0) R.sample("long", "29 shapes around a run of " + std::to_string(n) + " octets", 3);
    }
    R.space("C02 length sweep: 29 shapes (quote / dot / escape / fold / blank / high byte before, after or inside a run) x run lengths 1.." + std::to_string(maxn) + " x 3 modes", total * R.a.nworkers * 3);
}

// (f) deeper enumeration over the symbols of quoted pairs and folding only: all strings of length <= 8 (thorough <= 9) over {" \ CR LF SP . a}
static void stage_folds(Run &R) {
    static const char AL[] = {'"', '\\', '\r', '\n', ' ', '.', 'a'};
    const int K = sizeof AL; int maxlen = R.a.thorough ? 9 : 8; uint64_t total = 0, idx = 0; std::vector<int> d(maxlen, 0);
    for (int len = 7; len <= maxlen; len++) {   // lengths 1..6 are covered by the 13-symbol enumeration
        uint64_t cnt = 1; for (int i = 0; i < len; i++) cnt *= K; total += cnt * 3; std::fill(d.begin(), d.end(), 0);
        for (uint64_t n = 0; n < cnt; n++) {
            if ((int) ((idx++ / 128) % R.a.nworkers) == R.a.worker && AL[d[0]] != '.') {
                Bytes b; for (int i = 0; i < len; i++) b += AL[d[i]];
                for (int mode = 0; mode < 3; mode++) if (!run_one(R, mode, b)) return;
            }
            for (int i = len - 1; i >= 0; i--) { if (++d[i] < K) break; d[i] = 0; }
        }
    }
    R.space("C02 all strings of length 7.." + std::to_string(maxlen) + " over the quoted-pair / folding symbols {\" \\ CR LF SP . a} x 3 modes", total);
}

// corpus: the repository's own local-part lines
static void stage_corpus(Run &R) {
    for (const char *fn : {"localpart-ascii.txt", "localpart-utf8.txt", "localpart-utf8-rfc20.txt"}) {
        std::ifstream f(R.a.datadir + "/" + fn); std::string line;
        while (std::getline(f, line)) {
            if (!line.empty() && line.back() == '\r') line.pop_back();
            if (line.empty() || line[0] == '#') continue;
            if (line.find('\0') != std::string::npos) continue;
            for (int m = 0; m < 3; m++) if (!run_one(R, m, line)) return;
            R.count("corpus-lines");
        }
    }
}

#ifndef VF_FUZZ
int main(int argc, char **argv) {
    Run R; R.a = parse_args(argc, argv); R.prop = "C02";
    install_death(R.a); WatchdogGuard wdg; install_watchdog(&R.evaluations, R.a.stage == "huge" ? 60 : 10);
    inflight() = [] { return g_bytes ? mkcase(g_mode, *g_bytes).str() : std::string(); };
    if (!R.a.replay.empty()) {
        Case c = Case::parse(R.a.replay);
        auto f = check_one(R, (int) c.geti("mode"), c.getb("local"));
        if (f) { printf("REPLAY-FAIL %s: %s\n", f->cls.c_str(), f->explain.c_str()); return 3; }
        printf("REPLAY-PASS\n"); return 0;
    }
    if (R.a.stage == "automaton") stage_automaton(R);
    else if (R.a.stage == "bounded") stage_bounded(R);
    else if (R.a.stage == "random") stage_random(R);
    else if (R.a.stage == "corpus") stage_corpus(R);
    else if (R.a.stage == "long") stage_long(R);
    else if (R.a.stage == "folds") stage_folds(R);
    else { fprintf(stderr, "unknown stage %s\n", R.a.stage.c_str()); return 2; }
    return finish(R);
}
#else
VF_FUZZ_TARGET("C02", nullptr, [](Run &R, const uint8_t *d, size_t n) -> std::optional<Failure> {
    if (n < 1) return std::nullopt;
    Bytes l = fuzz_bytes(d, n - 1);
    for (int m = 0; m < 3; m++) { auto f = check_one(R, m, l); if (f) return f; }
    R.sample("fuzz", show(l.substr(0, 80)), 4);
    return std::nullopt; })
#endif
