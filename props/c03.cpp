// C03 — RFC 6531 local part: strict UTF-8 plus the RFC 5321 grammar, nothing else.
// Oracles: ref::utf8 + ref::local_ok(M6531); on pure ASCII the library's own
// 5321 scanner (stated equivalence); metamorphic: replacing each non-ASCII
// character by 'x' keeps the decision when no non-ASCII character is escaped.
#include "../harness/rc_glue.hpp"
#include "../harness/gen.hpp"
#include "../harness/lib.hpp"

using namespace vf;
extern "C" const vapi dflt_api;
static const vapi *A = &dflt_api;
static TailBuf TB(4096);
static const Bytes *g_bytes;
static Obj *VET = nullptr;
static void make_vet() {
    VET = new Obj(A); A->obj_set_tld(VET->p, 0);
    A->obj_set_mode(VET->p, 1); A->obj_setup(VET->p); A->obj_set_mode(VET->p, 3); A->obj_setup(VET->p);
    A->obj_set_rfc_raw(VET->p, 77); (void) A->obj_setup(VET->p);
    A->obj_set_mode(VET->p, 3); if (A->obj_setup(VET->p) != 0) abort();
}

static Case mkcase(const Bytes &b) { Case c; c.b("local", b); return c; }

static int lib(int which, const Bytes &b, char term) {
    char *p = TB.place(b, term, term ? Bytes("d.com") : Bytes());
    return A->part(which, p, p + b.size(), 0, nullptr);
}

static std::optional<Failure> check_one(Run &R, const Bytes &b) {
    g_bytes = &b;
    std::vector<uint32_t> cps;
    bool wf = ref::utf8_decode(b, cps);
    bool want = ref::local_ok(ref::M6531, b);
    int r_at = lib(VP_6531_LOCAL, b, '@'), r_nul = lib(VP_6531_LOCAL, b, 0);
    R.eval(2);
    bool ascii = ref::pure_ascii(b);
    bool structural = b.find_first_of(".\"\\") != Bytes::npos;
    if ((!ascii && structural) || !wf) R.nontrivial(hashs(b));
    R.count(want ? "accepted" : (wf ? "rejected-wellformed" : "rejected-malformed-utf8"));
    if (!ascii && want && b.find('"') != Bytes::npos) R.sample("accepted non-ASCII with quotes", show(b));
    if (!wf) R.sample("malformed", show(b));
    for (int t = 0; t < 2; t++) {
        int rc = t ? r_nul : r_at;
        if ((rc == 0) != want) {
            std::string cls = want ? "rejects-valid-local" : (wf ? "accepts-invalid-local" : "accepts-malformed-utf8");
            return Failure{cls, mkcase(b).str(), "mode 6531 local part '" + show(b) + "' (" + (t ? "NUL" : "'@'") + " after it): reference says " +
                                                  (want ? "valid" : (wf ? "invalid (grammar)" : "invalid (malformed UTF-8)")) + ", is_6531_local returned " + std::to_string(rc)};
        }
    }
    if (VET && b.size() >= 1 && b.size() <= 64) {   // the same verdict through eav_is_email on an object that reached mode 6531 through a history; the domain part must not matter
        static const char *DOMS[] = {"@ok.com", "@[1.2.3.4]", "@[IPv6:2001:db8::1]", "@\xD0\xBF\xD0\xBE\xD1\x87\xD1\x82\xD0\xB0.\xD1\x80\xD1\x84", "@ok.com", "@[IPv6:::ffff:1.2.3.4]"};
        Bytes dom = DOMS[hashs(b, 5) % 6];
        v_outcome o = VET->is_email_tail(TB, b + dom); R.eval();
        if ((o.ret == 1) != want) return Failure{"6531-through-reused-object", mkcase(b).str(), "eav_is_email in mode 6531 (object set up 5321 -> 6531 -> refused setup -> 6531) on '" + show(b) + dom + "': " + outcome_str(o) + ", reference says the local part is " + (want ? "valid" : "invalid")};
    }
    if (r_at != r_nul)
        return Failure{"terminator-dependent", mkcase(b).str(), "return code differs between '@' and NUL terminator: " + std::to_string(r_at) + " vs " + std::to_string(r_nul)};
    if (ascii) { // stated: on pure-ASCII local parts modes 6531 and 5321 decide identically
        int r5 = lib(VP_5321_LOCAL, b, '@'); R.eval();
        if ((r5 == 0) != (r_at == 0))
            return Failure{"ascii-6531-vs-5321", mkcase(b).str(), "pure-ASCII local part '" + show(b) + "': is_5321_local=" + std::to_string(r5) + " is_6531_local=" + std::to_string(r_at)};
    } else if (wf) {
        // metamorphic: X -> 'x' for every non-ASCII X, unless some X is escaped
        Bytes y; bool escaped_na = false, esc = false, inq = false;
        for (uint32_t c : cps) {
            if (c >= 0x80) { if (esc) escaped_na = true; y += 'x'; esc = false; continue; }
            y += (char) c;
            if (inq) { if (esc) esc = false; else if (c == '\\') esc = true; else if (c == '"') inq = false; }
            else if (c == '"') inq = true;
        }
        if (!escaped_na) {
            int ry = lib(VP_6531_LOCAL, y, '@'); R.eval();
            R.count("metamorphic-x-substitution");
            if ((ry == 0) != (r_at == 0))
                return Failure{"nonascii-changes-structure", mkcase(b).str(), "'" + show(b) + "' -> " + std::to_string(r_at) + " but with every non-ASCII character replaced by 'x' ('" + show(y) + "') -> " + std::to_string(ry)};
        }
    }
    return std::nullopt;
}
static bool run_one(Run &R, const Bytes &b) { auto f = check_one(R, b); return !(f && !R.fail(*f)); }

// place a UTF-8 candidate sequence in the four positions of the statement
static bool placements(Run &R, const Bytes &seq) {
    if (!run_one(R, seq)) return false;                       // atom
    if (!run_one(R, "a" + seq + "b")) return false;
    if (!run_one(R, "\"" + seq + "\"")) return false;         // quoted
    if (!run_one(R, "\"\\" + seq + "\"")) return false;       // escaped
    if (!run_one(R, "a." + seq)) return false;                // at the end (truncation visible)
    if (!run_one(R, "\"a" + seq)) return false;               // open quote, sequence last
    return true;
}

// (a) UTF-8 candidates
static void stage_utf8(Run &R) {
    uint64_t idx = 0, total = 0;
    auto mine = [&]() { return (int) (idx++ % R.a.nworkers) == R.a.worker; };
    // all 1- and 2-byte sequences
    for (int a = 1; a < 256; a++) { total++; if (mine()) { if (!placements(R, Bytes(1, (char) a))) return; } }
    for (int a = 0x80; a < 256; a++) for (int b = 1; b < 256; b++) { total++; if (mine()) { Bytes s; s += (char) a; s += (char) b; if (!placements(R, s)) return; } }
    R.space("C03 all 1-byte and all 2-byte sequences with a lead >= 0x80, x 6 placements", total * 6);
    // 3-byte sequences: thorough = all with lead >= 0xC0 ... ; quick = boundary continuation values
    std::vector<int> cv;
    if (R.a.thorough) { for (int v = 1; v < 256; v++) cv.push_back(v); }
    else cv = {0x01, 0x41, 0x7f, 0x80, 0x81, 0x8f, 0x90, 0x9f, 0xa0, 0xaf, 0xb0, 0xbf, 0xc0, 0xc2, 0xe0, 0xed, 0xf0, 0xff};
    uint64_t t3 = 0;
    for (int a = 0xC0; a < 256; a++) for (int b : cv) for (int c : cv) {
        t3++; if (!mine()) continue;
        Bytes s; s += (char) a; s += (char) b; s += (char) c;
        if (!placements(R, s)) return;
    }
    R.space(std::string("C03 3-byte sequences lead C0..FF x ") + (R.a.thorough ? "all 255x255" : "18x18 boundary") + " continuation values, x 6 placements", t3 * 6);
    // 4-byte structured cover
    static const int B2[] = {0x7f, 0x80, 0x8f, 0x90, 0xbf, 0xc0}, B34[] = {0x7f, 0x80, 0xbf, 0xc0};
    uint64_t t4 = 0;
    for (int a = 0xF0; a < 256; a++) for (int b : B2) for (int c : B34) for (int d : B34) {
        t4++; if (!mine()) continue;
        Bytes s; s += (char) a; s += (char) b; s += (char) c; s += (char) d;
        if (!placements(R, s)) return;
    }
    R.space("C03 4-byte cover: lead F0..FF x {7F,80,8F,90,BF,C0} x {7F,80,BF,C0}^2, x 6 placements", t4 * 6);
}

// (b) bounded-exhaustive mixes of ASCII structure and multi-byte characters
static void stage_bounded(Run &R) {
    static const std::vector<Bytes> AL = {"a", ".", "\"", "\\", " ", "\x01", "\xD0\x96", "\xE2\x82\xAC", "\xF0\x90\x8D\x88", "\x80", "\xC3"};
    const int K = (int) AL.size();
    int maxlen = R.a.thorough ? 8 : 6;
    uint64_t total = 0, idx = 0;
    std::vector<int> d(maxlen, 0);
    for (int len = 1; len <= maxlen; len++) {
        uint64_t cnt = 1; for (int i = 0; i < len; i++) cnt *= K;
        total += cnt;
        std::fill(d.begin(), d.end(), 0);
        for (uint64_t n = 0; n < cnt; n++) {
            if ((int) ((idx++ / 64) % R.a.nworkers) == R.a.worker) {
                Bytes b; for (int i = 0; i < len; i++) b += AL[d[i]];
                if (!run_one(R, b)) return;
            }
            for (int i = len - 1; i >= 0; i--) { if (++d[i] < K) break; d[i] = 0; }
        }
    }
    R.space("C03 all strings of 1.." + std::to_string(maxlen) + " symbols over {a . \" \\ SP 0x01 U+0416 U+20AC U+10348 0x80 0xC3}", total);
}

// (e) metamorphic family of the statement, one code point per block of 0x100 plus plane edges
static void stage_family(Run &R) {
    std::vector<uint32_t> cps;
    for (uint32_t c = 0x80; c < 0x3000; c += 0x25) cps.push_back(c);
    for (uint32_t c = 0x3000; c <= 0x10FFFF; c += 0x0D31) if (c < 0xD800 || c > 0xDFFF) cps.push_back(c);
    for (uint32_t c : {0x80u, 0x7FFu, 0x800u, 0xD7FFu, 0xE000u, 0xFFFFu, 0x10000u, 0x10FFFFu, 0xFEFFu, 0x200Du}) cps.push_back(c);
    uint64_t idx = 0, total = 0;
    for (uint32_t c : cps) {
        if ((int) (idx++ % R.a.nworkers) != R.a.worker) { total += 14; continue; }
        Bytes X = ref::utf8_encode(c);
        const Bytes fam[] = {"a." + X + ".b", X + "\"q\"", "a." + X + "\"q\"", "\"\\" + X + "\"", X + "." + X, X + ".." + X, "." + X, X + ".",
                             "\"" + X + "\"", "\"" + X + "\"." + X, X + ".\"" + X + "\"", "\"q\"" + X, "a" + X + "\"q\"", X + "\"" };
        for (const Bytes &b : fam) { total++; if (!run_one(R, b)) return; }
        R.sample("family", show("a." + X + ".b"));
    }
    R.space("C03 family {a.X.b, X\"q\", a.X\"q\", \"\\X\", X.X, X..X, .X, X., \"X\", ...} for " + std::to_string(cps.size()) + " code points (2-,3-,4-byte classes)", total);
}

static void stage_long(Run &R) {
    size_t maxn = R.a.thorough ? 4200 : 1100; uint64_t total = 0;
    static const char *UNITS[] = {"a", "\xD0\x96", "\xE2\x82\xAC", "\xF0\x90\x8D\x88"};
    for (size_t n = 1; n <= maxn; n++) {
        if ((int) (n % R.a.nworkers) != R.a.worker) continue;
        for (const char *u : UNITS) for (const Bytes &b : gen::long_local_shapes(n, u)) { total++; if (!run_one(R, b)) return; }
    }
    R.sample("long", "29 shapes x units {a, U+0416, U+20AC, U+10348} x run lengths 1.." + std::to_string(maxn));
    R.space("C03 length sweep: 29 shapes x 4 units (1-4 byte characters) x run lengths 1.." + std::to_string(maxn), total * R.a.nworkers);
}

// local parts longer than 2^31 octets (length arithmetic in int would wrap)
static std::optional<Failure> check_huge(Run &R, int shape) {
    Case cs; cs.i("huge", 1).i("shape", shape); size_t n = 0;
    char *s = huge_input(shape, &n); if (!s) { R.note("huge input: allocation failed, case skipped"); return std::nullopt; }
    static const bool WANT[6] = {true, false, true, false, true, true};  // shape 4 ("aaa.aaa...com") is a valid dotted local part
    int r6 = A->part(VP_6531_LOCAL, s, s + n, 0, nullptr), r5 = A->part(VP_5321_LOCAL, s, s + n, 0, nullptr); R.eval(2);
    free(s);
    R.nontrivial(hashs(cs.str())); R.count("huge-inputs"); R.sample("huge", "shape " + std::to_string(shape) + ", " + std::to_string(n) + " octets: is_6531_local=" + std::to_string(r6) + " is_5321_local=" + std::to_string(r5), 6);
    if ((r6 == 0) != WANT[shape]) return Failure{"huge-local-part", cs.str(), "local part of " + std::to_string(n) + " octets (shape " + std::to_string(shape) + "): expected " + (WANT[shape] ? "valid" : "invalid") + ", is_6531_local returned " + std::to_string(r6) + " (is_5321_local: " + std::to_string(r5) + ")"};
    if (shape != 3 && shape != 5 && (r5 == 0) != (r6 == 0)) return Failure{"ascii-6531-vs-5321", cs.str(), "pure-ASCII local part of " + std::to_string(n) + " octets: is_5321_local=" + std::to_string(r5) + " is_6531_local=" + std::to_string(r6)};
    return std::nullopt;
}
static void stage_huge(Run &R) {
    for (int shape = 0; shape < 6; shape++) { if (shape % R.a.nworkers != R.a.worker || shape >= 6) continue; auto f = check_huge(R, shape); if (f && !R.fail(*f)) return; }
}

static void stage_random(Run &R) {
    rc_run(R, "C03 generated 6531 local parts agree with UTF-8 + 5321 reference", 3.0, [&](Src &s) -> std::optional<Failure> {
        Bytes b = s.chance(1, 2) ? gen::local_valid(s, ref::M6531) : gen::local_any(s, ref::M6531);
        for (auto &c : b) if (c == 0) c = 1;
        R.count(ref::pure_ascii(b) ? "random-pure-ascii" : "random-non-ascii");
        R.sample("random", show(b), 6);
        return check_one(R, b);
    });
}

static void stage_corpus(Run &R) {
    for (const char *fn : {"localpart-ascii.txt", "localpart-utf8.txt", "localpart-utf8-rfc20.txt"}) {
        std::ifstream f(R.a.datadir + "/" + fn); std::string line;
        while (std::getline(f, line)) {
            if (!line.empty() && line.back() == '\r') line.pop_back();
            if (line.empty() || line[0] == '#' || line.find('\0') != std::string::npos) continue;
            if (!run_one(R, line)) return;
            R.count("corpus-lines");
        }
    }
}

#ifndef VF_FUZZ
int main(int argc, char **argv) {
    Run R; R.a = parse_args(argc, argv); R.prop = "C03";
    install_death(R.a); WatchdogGuard wdg; install_watchdog(&R.evaluations, R.a.stage == "huge" ? 60 : 10);
    inflight() = [] { return g_bytes ? mkcase(*g_bytes).str() : std::string(); };
    make_vet();
    if (!R.a.replay.empty()) {
        Case rc_ = Case::parse(R.a.replay);
        auto f = rc_.has("huge") ? check_huge(R, (int) rc_.geti("shape")) : check_one(R, rc_.getb("local"));
        if (f) { printf("REPLAY-FAIL %s: %s\n", f->cls.c_str(), f->explain.c_str()); return 3; }
        printf("REPLAY-PASS\n"); return 0;
    }
    if (R.a.stage == "utf8") stage_utf8(R);
    else if (R.a.stage == "bounded") stage_bounded(R);
    else if (R.a.stage == "family") stage_family(R);
    else if (R.a.stage == "random") stage_random(R);
    else if (R.a.stage == "corpus") stage_corpus(R);
    else if (R.a.stage == "long") stage_long(R);
    else if (R.a.stage == "huge") stage_huge(R);
    else { fprintf(stderr, "unknown stage %s\n", R.a.stage.c_str()); return 2; }
    return finish(R);
}
#else
VF_FUZZ_TARGET("C03", [](Run &) { make_vet(); return true; }, [](Run &R, const uint8_t *d, size_t n) -> std::optional<Failure> {
    Bytes l = fuzz_bytes(d, n); R.sample("fuzz", show(l.substr(0, 80)), 4); return check_one(R, l); })
#endif
