// C20 — the eav CLI: robust on any file, one verdict per line, agrees with the library.
// Files are generated (rapidcheck) from line shapes {empty, blanks, comment, not-a-comment,
// valid/invalid addresses, very long, invalid UTF-8, embedded CR, control characters,
// leading/trailing blanks, NUL} x terminators {LF, CRLF} x final newline present/absent.
// The sanitizer build of bin/eav runs as a subprocess; oracles: exit status 0, no signal, no
// sanitizer/assert text; stdout parsed positionally against a line model (the tool's
// documented trimming) whose verdict and message come from the in-process library under
// eav_init defaults; well-formed lines without controls must be echoed unchanged.
#include "../harness/rc_glue.hpp"
#include "../harness/addrcore.hpp"
#include <spawn.h>
#include <sys/wait.h>
#include <fcntl.h>
#include <sys/resource.h>

using namespace vf;
extern "C" const vapi dflt_api;
extern char **environ;
static const vapi *A = &dflt_api;
static std::string g_case, CLI, CLILIB, TMPD;
static Tlds T;
static Obj *LIB;
static TailBuf TB(70000);

static std::string slurp(const std::string &p) { std::ifstream f(p, std::ios::binary); return std::string((std::istreambuf_iterator<char>(f)), std::istreambuf_iterator<char>()); }

struct CliOut { int status; bool signaled; int sig; std::string out, err; };
static CliOut run_cli(const Bytes &file, const Bytes *second = nullptr) {
    std::string in = TMPD + "/in.txt", in2 = TMPD + "/in2.txt", so = TMPD + "/stdout", se = TMPD + "/stderr";
    { FILE *f = fopen(in.c_str(), "wb"); fwrite(file.data(), 1, file.size(), f); fclose(f); }
    if (second) { FILE *f = fopen(in2.c_str(), "wb"); fwrite(second->data(), 1, second->size(), f); fclose(f); }
    posix_spawn_file_actions_t fa; posix_spawn_file_actions_init(&fa);
    posix_spawn_file_actions_addopen(&fa, 1, so.c_str(), O_WRONLY | O_CREAT | O_TRUNC, 0644);
    posix_spawn_file_actions_addopen(&fa, 2, se.c_str(), O_WRONLY | O_CREAT | O_TRUNC, 0644);
    posix_spawn_file_actions_addopen(&fa, 0, "/dev/null", O_RDONLY, 0);
    std::vector<std::string> envs;
    for (char **e = environ; *e; e++) { std::string s = *e; if (s.rfind("LD_LIBRARY_PATH=", 0) == 0 || s.rfind("ASAN_OPTIONS=", 0) == 0 || s.rfind("LC_", 0) == 0 || s.rfind("LANG", 0) == 0) continue; envs.push_back(s); }
    envs.push_back("LD_LIBRARY_PATH=" + CLILIB); envs.push_back("ASAN_OPTIONS=detect_leaks=1:exitcode=77:abort_on_error=0:handle_abort=1"); envs.push_back("LANG=C.UTF-8");
    std::vector<char *> envp; for (auto &s : envs) envp.push_back((char *) s.c_str()); envp.push_back(nullptr);
    char *argv[] = {(char *) CLI.c_str(), (char *) in.c_str(), second ? (char *) in2.c_str() : nullptr, nullptr};
    pid_t pid; CliOut r{0, false, 0, "", ""};
    if (posix_spawn(&pid, CLI.c_str(), &fa, nullptr, argv, envp.data()) != 0) { r.status = -1; r.err = "spawn failed"; return r; }
    { struct rlimit rl; rl.rlim_cur = 60; rl.rlim_max = 90; prlimit(pid, RLIMIT_CPU, &rl, nullptr); }   // "terminates normally": a tool that spins is stopped by SIGXCPU after 60 s of its own CPU time
    int st = 0; waitpid(pid, &st, 0); posix_spawn_file_actions_destroy(&fa);
    r.signaled = WIFSIGNALED(st); r.sig = r.signaled ? WTERMSIG(st) : 0; r.status = WIFEXITED(st) ? WEXITSTATUS(st) : -1;
    r.out = slurp(so); r.err = slurp(se);
    return r;
}

struct ModelLine { Bytes raw, trimmed; bool comment, has_nul; };
// the tool's documented processing: split at LF, strip the terminator (CRLF or LF), skip '#' lines,
// drop one leading space, drop one trailing blank
static std::vector<ModelLine> model(const Bytes &file) {
    std::vector<ModelLine> v; size_t i = 0;
    while (i < file.size()) {
        size_t nl = file.find('\n', i); Bytes ln; bool term = nl != Bytes::npos;
        if (term) { ln = file.substr(i, nl - i); i = nl + 1; } else { ln = file.substr(i); i = file.size(); }
        ModelLine m; m.raw = ln; m.has_nul = ln.find('\0') != Bytes::npos;
        if (term && !ln.empty() && ln.back() == '\r') ln.pop_back();
        m.comment = !ln.empty() && ln[0] == '#';
        if (!ln.empty() && ln[0] == ' ') ln.erase(0, 1);
        size_t z = ln.find('\0'); if (z != Bytes::npos) ln.resize(z);       // C strings: the tool sees the text up to the first NUL
        if (!ln.empty() && (ln.back() == ' ' || ln.back() == '\t')) ln.pop_back();
        m.trimmed = ln; v.push_back(m);
    }
    return v;
}

static bool has_ctl(const Bytes &s) { for (unsigned char c : s) if (c < 0x20 || c == 0x7f) return true; return false; }

static std::optional<Failure> check_file(Run &R, const Bytes &file) {
    Case cs; cs.b("file", file); g_case = cs.str();
    std::vector<ModelLine> ml = model(file);
    CliOut r = run_cli(file); R.eval();
    bool nontriv = false; size_t nlines = 0;
    for (auto &m : ml) { if (m.raw.empty() || m.raw.size() > 1000 || !ref::utf8_ok(m.raw) || has_ctl(m.raw)) nontriv = true; }
    if (!file.empty() && file.back() != '\n') nontriv = true;
    if (file.find("\r\n") != Bytes::npos) nontriv = true;
    if (nontriv) R.nontrivial(hashs(file));
    std::string desc = std::to_string(ml.size()) + "-line file (" + std::to_string(file.size()) + " bytes)";
    auto first_bad_line = [&]() -> std::string { for (auto &m : ml) if (!m.comment && (m.trimmed.empty() || m.raw.size() > 1000 || !ref::utf8_ok(m.raw) || m.has_nul)) return " e.g. line '" + show(m.raw.substr(0, 60)) + "' (" + std::to_string(m.raw.size()) + " bytes)"; return ""; };
    if (r.signaled && r.sig == SIGXCPU) return Failure{"cli-hang", g_case, "eav did not terminate: stopped after 60 s of CPU time on a " + desc + first_bad_line()};
    if (r.signaled) return Failure{r.sig == 6 ? "cli-abort" : "cli-signal", g_case, "eav killed by signal " + std::to_string(r.sig) + " on a " + desc + first_bad_line() + "; stderr: " + r.err.substr(0, 400)};
    if (r.err.find("Sanitizer") != std::string::npos || r.err.find("runtime error:") != std::string::npos || r.err.find("Assertion") != std::string::npos)
        return Failure{"cli-memory-error", g_case, "eav reports a memory error / undefined behaviour on a " + desc + first_bad_line() + "; stderr: " + r.err.substr(0, 500)};
    if (r.status != 0) return Failure{"cli-exit-status", g_case, "eav exit status " + std::to_string(r.status) + " on a " + desc + "; stderr: " + r.err.substr(0, 300)};
    // positional parse of stdout
    size_t pos = 0; int npass = 0, nfail = 0;
    auto next_line = [&](std::string &out) -> bool { if (pos >= r.out.size()) return false; size_t nl = r.out.find('\n', pos); if (nl == std::string::npos) { out = r.out.substr(pos); pos = r.out.size(); } else { out = r.out.substr(pos, nl - pos); pos = nl + 1; } return true; };
    for (size_t i = 0; i < ml.size(); i++) {
        const ModelLine &m = ml[i]; if (m.comment) { R.count("comment-lines"); continue; }
        nlines++;
        R.count(m.trimmed.empty() ? "empty-lines" : m.raw.size() > 1000 ? "long-lines" : !ref::utf8_ok(m.raw) ? "invalid-utf8-lines" : has_ctl(m.trimmed) ? "control-char-lines" : "plain-lines");
        std::string l1;
        std::string where = "line " + std::to_string(i + 1) + " '" + show(m.raw.substr(0, 80)) + "' (after trimming '" + show(m.trimmed.substr(0, 80)) + "')";
        if (!next_line(l1)) return Failure{"cli-missing-verdict", g_case, where + ": no verdict line in the tool's output (" + std::to_string(nlines - 1) + " verdicts printed)"};
        bool pass = l1.rfind("PASS: ", 0) == 0, failv = l1.rfind("FAIL: ", 0) == 0;
        if (!pass && !failv) return Failure{"cli-output-format", g_case, where + ": expected a PASS:/FAIL: line, got '" + show(l1.substr(0, 100)) + "'"};
        std::string l2; if (failv && !next_line(l2)) return Failure{"cli-output-format", g_case, where + ": FAIL without a message line"};
        (pass ? npass : nfail)++;
        if (m.has_nul) { R.count("nul-lines(verdict not judged)"); continue; }
        v_outcome x = LIB->is_email_tail(TB, m.trimmed); R.eval();
        if ((x.ret == 1) != pass) return Failure{"cli-verdict-differs-from-library", g_case, where + ": tool says " + (pass ? "PASS" : "FAIL") + ", the library under default settings -> " + outcome_str(x)};
        if (failv) { if (l2.rfind("      ", 0) != 0 || l2.substr(6) != x.errstr) return Failure{"cli-message-differs-from-library", g_case, where + ": message line '" + show(l2) + "', library message '" + x.errstr + "'"}; }
        if (ref::utf8_ok(m.trimmed) && !has_ctl(m.trimmed) && l1.substr(6) != m.trimmed)
            return Failure{"cli-echo-differs", g_case, where + ": echoed as '" + show(l1.substr(6, 120)) + "'"};
    }
    std::string extra; if (next_line(extra)) return Failure{"cli-extra-output", g_case, "more output than verdicts: '" + show(extra.substr(0, 100)) + "' after " + std::to_string(nlines) + " verdicts for a " + desc};
    char want[64]; snprintf(want, sizeof want, "pass = %d fail = %d", npass, nfail);
    if (r.err.find(want) == std::string::npos) return Failure{"cli-summary", g_case, std::string("summary on stderr '") + show(r.err.substr(0, 200)) + "' does not say '" + want + "'"};
    return std::nullopt;
}

// expected stdout of one file, from the line model and the library (empty optional: the file has a NUL line, not modelled)
static std::optional<std::string> expected_stdout(Run &R, const Bytes &file, int *np, int *nf) {
    std::string out; *np = *nf = 0;
    for (const ModelLine &m : model(file)) {
        if (m.comment) continue;
        if (m.has_nul || !ref::utf8_ok(m.trimmed) || has_ctl(m.trimmed)) return std::nullopt;   // echo of such lines is not specified: single-file check covers them
        v_outcome x = LIB->is_email_tail(TB, m.trimmed); R.eval();
        if (x.ret == 1) { out += "PASS: " + m.trimmed + "\n"; (*np)++; } else { out += "FAIL: " + m.trimmed + "\n      " + x.errstr + "\n"; (*nf)++; }
    }
    return out;
}
static std::optional<Failure> check_two_files(Run &R, const Bytes &f1, const Bytes &f2) {
    Case cs; cs.b("file", f1).b("file2", f2); g_case = cs.str();
    int p1, n1, p2, n2; auto e1 = expected_stdout(R, f1, &p1, &n1), e2 = expected_stdout(R, f2, &p2, &n2);
    if (!e1 || !e2) return std::nullopt;
    CliOut r = run_cli(f1, &f2); R.eval();
    R.nontrivial(hashs(f1 + "|" + f2)); R.count("two-file-invocations");
    if (r.signaled || r.status != 0 || r.err.find("Sanitizer") != std::string::npos || r.err.find("runtime error:") != std::string::npos)
        return Failure{"cli-two-files-crash", g_case, "eav on two files: status " + std::to_string(r.status) + " signal " + std::to_string(r.sig) + "; stderr: " + r.err.substr(0, 400)};
    if (r.out != *e1 + *e2 && r.out != *e2 + *e1)
        return Failure{"cli-two-files-output", g_case, "eav FILE1 FILE2: output is not the two per-file outputs one after the other (state carried from one file to the next?): got '" + show(r.out.substr(0, 300)) + "'"};
    return std::nullopt;
}

static Bytes gen_line(Src &s) {
    Bytes l;
    switch (s.pick(16)) {
    case 0: break;                                                   // empty
    case 1: l = Bytes(1 + s.pick(3), s.chance(1, 2) ? ' ' : '\t'); break; // blanks only
    case 2: l = "#" + gen_address(s, T); break;                       // comment
    case 3: l = " #" + gen_address(s, T); break;                      // not a comment
    case 4: { static const size_t L[] = {1022, 1023, 1024, 1025, 2040, 2046, 2047, 2048, 2049, 2050, 3000, 4095, 4096, 8192}; size_t n = L[s.pick(14)]; l = "u@"; while (l.size() + 5 < n) l += char('a' + s.pick(26)); l += ".com"; } break;
    case 5: { size_t n = 500 + s.pick(3000); for (size_t i = 0; i < n; i++) l += (char) (s.chance(1, 30) ? 1 + s.pick(31) : 'a' + s.pick(26)); } break; // long with controls
    case 6: l = gen_address(s, T); l.insert(s.pick((uint32_t) l.size() + 1), 1, (char) (0x80 + s.pick(0x80))); break; // invalid UTF-8 (mostly)
    case 7: l = gen_address(s, T); l.insert(s.pick((uint32_t) l.size() + 1), 1, '\r'); break;                          // embedded CR
    case 8: l = gen_address(s, T); l.insert(s.pick((uint32_t) l.size() + 1), 1, (char) (1 + s.pick(31))); break;        // control
    case 9: l = Bytes(s.pick(3), ' ') + gen_address(s, T) + Bytes(s.pick(3), s.chance(1, 2) ? ' ' : '\t'); break;       // blanks around
    case 10: l = gen_address(s, T); l.insert(s.pick((uint32_t) l.size() + 1), 1, '\0'); break;                         // NUL
    case 11: l = s.of(T.idn_u); l = "\xD0\xB8@x." + l; break;
    case 12: { static const char *TAILS[] = {"\xF0", "\xF0\x9F", "\xF0\x9F\x98", "\xE2", "\xE2\x82", "\xC3", "\xF4\x8F\xBF"};      // ends inside a multi-byte sequence, any length
               size_t n = s.chance(1, 2) ? 100 + s.pick(160) : 1 + s.pick(1200); l = Bytes(n, 'x') + "@example.com"; l += TAILS[s.pick(7)]; } break;
    default: l = gen_address(s, T);
    }
    for (auto &c : l) if (c == '\n') c = 'n';
    return l;
}
static Bytes gen_file(Src &s) {
    Bytes f; uint32_t n = s.pick(61);
    for (uint32_t i = 0; i < n; i++) { f += gen_line(s); bool last = i + 1 == n; if (last && s.chance(1, 4)) break; f += s.chance(1, 4) ? "\r\n" : "\n"; }
    return f;
}

static void stage_random(Run &R) {
    rc_run(R, "C20 the CLI agrees with the library on generated files", 5.0, [&](Src &s) -> std::optional<Failure> {
        Bytes f = gen_file(s);
        R.sample("file", show(f.substr(0, 160)) + (f.size() > 160 ? "..." : ""), 3);
        if (auto x = check_file(R, f)) return x;
        if (s.chance(1, 4)) { Bytes g = gen_file(s); return check_two_files(R, f, g); }
        return std::nullopt;
    });
}
// single-line files for every line shape boundary, and the repository's data files
static void stage_shapes(Run &R) {
    uint64_t idx = 0, total = 0;
    auto go = [&](const Bytes &f) -> bool { total++; if ((int) (idx++ % R.a.nworkers) != R.a.worker) return true; auto x = check_file(R, f); return !(x && !R.fail(*x)); };
    for (const char *t : {"\n", "\r\n", ""}) {
        for (const char *l : {"", " ", "  ", "\t", " \t", "#", "#x", " #x", "a@b.com", " a@b.com ", "a@b.com\t", "a@b.com  ", "\r", "a\r@b.com", "\xFF", "a\xFF@b.com", "\xD0\xB8@\xD0\xBF\xD0\xBE\xD1\x87\xD1\x82\xD0\xB0.\xD1\x80\xD1\x84", "\x01", "a\x7f@b.com", "a@b.com\r", "a@b.com\rx", "a@b.co\rm", "x\r", "\r\r", "a@b.com\r\r", "a@b.com \r", "a@b.com\r "})
            if (!go(Bytes(l) + t)) return;
        for (size_t n : {1000, 1022, 1023, 1024, 1025, 2040, 2044, 2045, 2046, 2047, 2048, 2049, 2050, 2060, 4096, 8192, 20000}) {
            if (!go("u@" + Bytes(n - 6, 'a') + ".com" + t)) return;
            Bytes u; while (u.size() + 2 <= n) u += "\xD0\x96"; if (!go(u + "@x.com" + t)) return;
            if (!go(Bytes(n, '\x01') + t)) return;
        }
    }
    // lines that end inside a multi-byte sequence, at every length around the sizes a line buffer is likely to have
    // (the text the tool reads may then end exactly where its buffer ends)
    {
        std::vector<size_t> lens; for (size_t n = 100; n <= 260; n++) lens.push_back(n);
        for (size_t n : {30, 61, 62, 63, 64, 65, 478, 479, 480, 481, 499, 500, 510, 511, 512, 513, 958, 959, 960, 961, 1021, 1022, 1023, 1024, 1025, 4093, 4094, 4095, 4096, 4097}) lens.push_back(n);
        for (size_t n : lens) for (const char *tail : {"\xF0", "\xF0\x9F", "\xF0\x9F\x98", "\xE2", "\xE2\x82", "\xC3"}) {
            size_t tl = strlen(tail); if (n < tl + 13) continue;
            Bytes line = Bytes(n - tl - 12, 'x') + "@example.com" + tail;
            int k = (int) ((n * 7 + tl) % 3);                       // terminator and position rotate so that every length meets each of them
            if (!go(line + (k == 0 ? "\n" : k == 1 ? "" : "\r\n"))) return;
            if (!go("a@example.com\n" + line + (k == 1 ? "\n" : k == 2 ? "" : "\r\n"))) return;
            if (n >= 117 && n <= 122 || n >= 237 && n <= 242) for (const char *t : {"\n", "", "\r\n"}) { if (!go(line + t)) return; if (!go("a@example.com\n" + line + t)) return; if (!go(line + t + (*t ? "b@example.com\n" : ""))) return; }
        }
    }
    // long well-formed lines whose multi-byte characters sit at every alignment relative to 4096 / 8192 (a tool that
    // handles a line in pieces must not cut a character)
    for (size_t n : {4090, 4094, 4095, 4096, 4097, 4098, 4100, 8190, 8192, 8194, 12288, 16384, 16390}) for (int pre = 0; pre < 4; pre++)
        for (const char *ch : {"\xC3\xA9", "\xE2\x82\xAC", "\xF0\x9F\x98\x80"}) {
            Bytes l(pre, 'a'); while (l.size() + strlen(ch) <= n) l += ch; l += "@x.com";
            if (!go(l + ((n + pre) % 2 ? "\n" : "\r\n"))) return;
        }
    // big files: a CR LF pair (and a lone LF) straddling every power-of-two offset from 512 to 256 KiB (block-wise readers)
    for (int k = 9; k <= 18; k++) for (int delta = -2; delta <= 1; delta++) for (int crlf = 0; crlf < 2; crlf++) {
        size_t target = ((size_t) 1 << k) - 1 + delta;          // offset at which the terminator of some line starts
        Bytes f; const Bytes line = "postmaster@example.org"; const char *term = crlf ? "\r\n" : "\n";
        while (f.size() + line.size() + 2 + 40 < target) f += line + term;
        size_t need = target - f.size();                          // this line's text is `need` octets long
        if (need >= 14) { f += Bytes(need - 12, 'x') + "@example.org"; f += term; }
        for (int i = 0; i < 3; i++) f += line + term;
        if (k >= 16 && (delta == -2 || !crlf) && k != 16) continue;   // the largest files only in the CR LF / boundary-exact variants
        if (!go(f)) return;
    }
    if (!go(Bytes("a@b.com\n\nc@d.com\n"))) return; if (!go(Bytes("\n\n\n"))) return; if (!go(Bytes("a@b.com\n\0x@y.com\nz@w.com\n", 25))) return;
    { Bytes a = "a@b.com\nbad@@x\n", b = "\xD0\xB8@\xD0\xBF\xD0\xBE\xD1\x87\xD1\x82\xD0\xB0.\xD1\x80\xD1\x84\r\nlast@no.newline.com", c = "u@" + Bytes(3000, 'a') + ".com\nx@y.org\n", e = "";
      for (auto &pr : std::vector<std::pair<Bytes, Bytes>>{{a, b}, {b, a}, {c, a}, {a, c}, {e, a}, {a, e}, {c, c}}) { total++; if ((int) (idx++ % R.a.nworkers) != R.a.worker) continue; auto x = check_two_files(R, pr.first, pr.second); if (x && !R.fail(*x)) return; } }
    for (const char *fn : {"pass-email-ascii.txt", "fail-email-ascii.txt", "email-utf8.txt", "email-reg.ru.txt", "localpart-utf8.txt", "domain-length.txt", "email-result-check.txt"}) if (!go(slurp(R.a.datadir + "/" + fn))) return;
    R.space("C20 single-line files: 20 line shapes + lengths around 1024/2048/4096/8192 in 3 fillings, x {LF, CRLF, no final newline}; lines of 100..260 and ~30 other lengths ending inside a multi-byte sequence (6 tails, first or second line); long lines of 2/3/4-byte characters at every alignment relative to 4096/8192/16384; files with a line terminator straddling every power-of-two offset 512..256 KiB; multi-line empties; the repository's data files", total);
}

int main(int argc, char **argv) {
    return std_main(argc, argv, "C20", {{"random", stage_random}, {"shapes", stage_shapes}},
        [](Run &R, const Case &c) -> std::optional<Failure> { if (c.has("file2")) return check_two_files(R, c.getb("file"), c.getb("file2")); return check_file(R, c.getb("file")); }, [] { return g_case; },
        [](Run &R) {
            for (size_t i = 0; i + 1 < R.a.rest.size(); i++) { if (R.a.rest[i] == "--cli") CLI = R.a.rest[i + 1]; if (R.a.rest[i] == "--clilib") CLILIB = R.a.rest[i + 1]; }
            if (CLI.empty() || !T.load(R.a.datadir)) return false;
            char tmpl[512]; snprintf(tmpl, sizeof tmpl, "%s/c20.XXXXXX", R.a.out.c_str()); if (!mkdtemp(tmpl)) return false; TMPD = tmpl;
            LIB = new Obj(A); return A->obj_setup(LIB->p) == 0;   // eav_init defaults, as bin/main.c
        },
        [] { delete LIB; std::string c = "rm -rf '" + TMPD + "'"; if (!TMPD.empty() && system(c.c_str())) {} });
}
