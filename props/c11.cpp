// C11 — the compiled TLD table answers exactly as data/punycode.csv dictates.
// (The regenerate-and-diff and generator-under-test stages live in tools/c11_py.py.)
#include "../harness/rc_glue.hpp"
#include "../harness/gen.hpp"
#include "../harness/tldutil.hpp"

using namespace vf;
extern "C" const vapi dflt_api;
static const vapi *A = &dflt_api;
static TailBuf TB(4096);
static Consts *C;
static Tlds T;
static std::string g_case;

// kind 0: CSV row index; kind 1: label that must not be found
static std::optional<Failure> check_row(Run &R, size_t i) {
    Case cs; cs.i("kind", 0).i("row", (long long) i); g_case = cs.str();
    if (i >= T.puny.rows.size()) return std::nullopt;
    const ref::TldRow &r = T.puny.rows[i];
    int ci = C->idx(r.cls);
    R.nontrivial(hashs(r.domain));
    R.count("row:" + r.cls);
    if (ci < 0) return Failure{"csv-unknown-type", cs.str(), "row '" + show(r.domain) + "' has type '" + r.type + "' that the documented rule does not map"};
    // entries are lower-case A-labels
    bool ldh = !r.domain.empty() && r.domain.size() <= 63;
    for (unsigned char c : r.domain) if (!((c >= 'a' && c <= 'z') || (c >= '0' && c <= '9') || c == '-')) ldh = false;
    if (!ldh) return Failure{"csv-not-lowercase-alabel", cs.str(), "CSV domain '" + show(r.domain) + "' is not a lower-case LDH / A-label"};
    for (size_t j = 0; j < i; j++) if (ref::lower(T.puny.rows[j].domain) == ref::lower(r.domain))
        return Failure{"csv-duplicate", cs.str(), "domain '" + show(r.domain) + "' listed twice (rows " + std::to_string(j) + ", " + std::to_string(i) + ")"};
    int want = C->tld_type[ci];
    int got = part0(A, TB, VP_TLD, r.domain); R.eval();
    if (got != want) return Failure{"row-lookup", cs.str(), "is_tld('" + r.domain + "') = " + std::to_string(got) + ", CSV row says " + r.cls + " (" + std::to_string(want) + ")"};
    got = part0(A, TB, VP_TLD, ref::lower(r.domain) == r.domain ? Bytes(r.domain).replace(0, 1, 1, (char) toupper((unsigned char) r.domain[0])) : r.domain); R.eval();
    if (got != want) return Failure{"row-lookup-case", cs.str(), "is_tld of capitalised '" + r.domain + "' = " + std::to_string(got) + ", CSV row says " + r.cls};
    if (!ref::reserved("x." + r.domain)) {
        int ir = 0; got = part0(A, TB, VP_UTF8_DOMAIN, "x." + r.domain, 1, &ir); R.eval();
        if (got != want) return Failure{"row-lookup-utf8", cs.str(), "is_utf8_domain('x." + r.domain + "', tld on) = " + std::to_string(got) + " (idn rc " + std::to_string(ir) + "), CSV row says " + r.cls};
        for (int m = 0; m < 3; m++) { v_outcome o = email_direct(A, TB, m, "a@x." + r.domain, 1); R.eval();
            if (o.rc != want) return Failure{"row-lookup-email", cs.str(), std::string("is_") + ref::MODE_NAME[m] + "_email('a@x." + r.domain + "')->rc = " + std::to_string(o.rc) + ", CSV row says " + r.cls}; }
    }
    // the class a row is *reported* with when it is not allowed: one object per mode with allow_tld = 0
    if (!ref::reserved("x." + r.domain)) {
        static Obj *DENY[4] = {nullptr, nullptr, nullptr, nullptr};
        for (int m = 0; m < 4; m++) {
            if (!DENY[m]) { DENY[m] = new Obj(A); DENY[m]->configure(m, 1, 0); }
            v_outcome o = DENY[m]->is_email_tail(TB, "a@x." + r.domain); R.eval();
            if (o.ret != 0 || o.errcode != C->eeav_tld[ci] || o.rc != want)
                return Failure{"row-reported-class", cs.str(), std::string("eav_is_email('a@x.") + r.domain + "') in mode " + ref::MODE_NAME[m] + " with no class allowed -> " + outcome_str(o) + ", CSV row says " + r.cls + " (error code " + std::to_string(C->eeav_tld[ci]) + ")"};
        }
    }
    // ... and on ONE object per mode whose allow_tld is changed and confirmed again for every row (as the manual prescribes):
    // allowed alone -> accepted; everything but its class allowed -> refused with its class (a row has one class, whatever
    // the object was used for before)
    if (!ref::reserved("x." + r.domain)) {
        static Obj *REUSE[4] = {nullptr, nullptr, nullptr, nullptr};
        for (int m = 0; m < 4; m++) {
            if (!REUSE[m]) { REUSE[m] = new Obj(A); REUSE[m]->configure(m, 1); }
            for (int pass = 0; pass < 2; pass++) {
                int mask = pass == 0 ? C->bit[ci] : (C->all_bits() & ~C->bit[ci]);
                A->obj_set_allow(REUSE[m]->p, mask); if (A->obj_setup(REUSE[m]->p) != 0) return Failure{"setup-failed", cs.str(), "eav_setup failed"};
                v_outcome o = REUSE[m]->is_email_tail(TB, "a@x." + r.domain); R.eval();
                bool ok = pass == 0 ? (o.ret == 1 && o.errcode == C->E_NO_ERROR && o.rc == want) : (o.ret == 0 && o.errcode == C->eeav_tld[ci] && o.rc == want);
                if (!ok) return Failure{"row-class-on-reused-object", cs.str(), std::string("one object in mode ") + ref::MODE_NAME[m] + ", allow_tld set to " + (pass == 0 ? "only " : "everything but ") + r.cls + " and confirmed with eav_setup: eav_is_email('a@x." + r.domain + "') -> " + outcome_str(o) + ", CSV row says " + r.cls};
            }
        }
    }
    // raw.csv: same row in U-label spelling, mode 6531
    if (T.ulabels.size() == T.puny.rows.size()) {
        const Bytes &u = T.ulabels[i];
        ToAscii t = to_ascii(u);
        if (t.rc != IDN2_OK || ref::lower(t.out) != r.domain)
            return Failure{"raw-vs-punycode", cs.str(), "raw.csv row " + std::to_string(i) + " '" + show(u) + "' converts to '" + show(t.out) + "' (rc " + std::to_string(t.rc) + "), punycode.csv has '" + r.domain + "'"};
        v_outcome o = email_direct(A, TB, 3, "a@x." + u, 1); R.eval();
        if (o.rc != want) return Failure{"row-lookup-ulabel", cs.str(), "is_6531_email('a@x." + show(u) + "')->rc = " + std::to_string(o.rc) + ", CSV row says " + r.cls};
        if (u != r.domain) R.sample("idn row", show(u) + " = " + r.domain + " : " + r.cls, 3);
    } else return Failure{"raw-vs-punycode", cs.str(), "raw.csv has " + std::to_string(T.ulabels.size()) + " rows, punycode.csv " + std::to_string(T.puny.rows.size())};
    return std::nullopt;
}

static std::optional<Failure> check_absent(Run &R, const Bytes &label) {
    Case cs; cs.i("kind", 1).b("label", label); g_case = cs.str();
    if (label.empty() || T.puny.find(label) || label.find('\0') != Bytes::npos) return std::nullopt;   // any byte string that is not a row
    int got = part0(A, TB, VP_TLD, label); R.eval();
    R.nontrivial(hashs(label, 1)); R.count("absent-label");
    if (got != -C->E_TLD_INVALID) return Failure{"absent-label-found", cs.str(), "is_tld('" + show(label) + "') = " + std::to_string(got) + " but the CSV has no such domain"};
    return std::nullopt;
}

// kind 3: a sequence of lookups (row indexes; negative = an absent label stored in `labels`): every answer is the CSV's,
// whatever was looked up before (the table has no memory)
static int want_of(const Bytes &l) { const Bytes *c = T.puny.find(l); return c ? C->tld_type[C->idx(*c)] : -C->E_TLD_INVALID; }
static std::optional<Failure> check_seq(Run &R, const std::vector<Bytes> &labels) {
    Case cs; cs.i("kind", 3); std::string j; for (auto &l : labels) { if (!j.empty()) j += ","; j += hexs(l); } cs.s("seq", j); g_case = cs.str();
    std::string sofar;
    for (size_t i = 0; i < labels.size(); i++) {
        const Bytes &l = labels[i]; if (l.empty() || l.find('\0') != Bytes::npos) continue;
        const Bytes *c = T.puny.find(l); if (c && C->idx(*c) < 0) continue;
        int want = want_of(l), got = part0(A, TB, VP_TLD, l); R.eval();
        if (got != want) return Failure{"lookup-depends-on-earlier-lookups", cs.str(), "is_tld('" + show(l) + "') = " + std::to_string(got) + " after looking up [" + sofar + "], the CSV says " + std::to_string(want)};
        sofar += (sofar.empty() ? "'" : ", '") + show(l) + "'";
    }
    R.nontrivial(hashs(j, 3)); R.count("lookup-sequence");
    return std::nullopt;
}

static void stage_rows(Run &R) {
    for (size_t i = 0; i < T.puny.rows.size(); i++) {
        if ((int) (i % R.a.nworkers) != R.a.worker) continue;
        auto f = check_row(R, i); if (f && !R.fail(*f)) return;
        const Bytes &t = T.puny.rows[i].domain;
        // rows that are a prefix / suffix / inner part of this row, looked up right after it (and the other way round)
        for (size_t a = 0; a < t.size(); a++) for (size_t n = 1; a + n <= t.size(); n++) { if (n == t.size()) continue; Bytes u = t.substr(a, n); if (!T.puny.find(u)) continue;
            auto g = check_seq(R, {t, u, t}); if (g && !R.fail(*g)) return; g = check_seq(R, {u, t, u}); if (g && !R.fail(*g)) return; }
        // neighbours in table order, both directions, and the far ends
        { const auto &rows = T.puny.rows; size_t N = rows.size();
          auto g = check_seq(R, {t, rows[(i + 1) % N].domain, t, rows[(i + N - 1) % N].domain, t, rows[0].domain, t, rows[N - 1].domain, "zzzz", t, "a", t}); if (g && !R.fail(*g)) return; }
        for (size_t n = 1; n < t.size(); n++) { auto g = check_absent(R, t.substr(0, n)); if (g && !R.fail(*g)) return; g = check_absent(R, t.substr(n)); if (g && !R.fail(*g)) return; }
        // look-alikes: one byte of the row changed by one bit (case bit of a non-letter, high bit, low bits), or replaced by a control / space
        for (size_t n = 0; n < t.size(); n++) for (int bit : {0x20, 0x80, 0x40, 0x01, 0x10}) { Bytes u = t; u[n] = (char) (u[n] ^ bit); if (u[n] == 0) continue; auto g = check_absent(R, u); if (g && !R.fail(*g)) return; }
        for (const char *x : {" ", "\t", ".", "\r", "\n", "@", "\x7f"}) { auto g = check_absent(R, t + x); if (g && !R.fail(*g)) return; g = check_absent(R, x + t); if (g && !R.fail(*g)) return; }
        for (char c : {'a', 'z', '0', '-'}) { auto g = check_absent(R, t + Bytes(1, c) + "a"); if (g && !R.fail(*g)) return; g = check_absent(R, Bytes("a") + Bytes(1, c) + t); if (g && !R.fail(*g)) return; g = check_absent(R, t + Bytes(1, c)); if (g && !R.fail(*g)) return; }
    }
    if (R.a.worker == 0) {
        // data/tld-domains.txt names the same TLD set, in the same order (U-label form doubled)
        std::ifstream f(R.a.datadir + "/tld-domains.txt"); std::string line; size_t k = 0;
        while (std::getline(f, line)) {
            if (line.empty()) continue;
            if (k >= T.ulabels.size() || line != T.ulabels[k] + "." + T.ulabels[k]) { R.fail(Failure{"tld-domains-list", "kind=2 line=" + std::to_string(k), "tld-domains.txt line " + std::to_string(k + 1) + " is '" + show(line) + "', raw.csv row gives '" + (k < T.ulabels.size() ? show(T.ulabels[k]) : std::string("<none>")) + "'"}); return; }
            k++; R.eval();
        }
        if (k != T.puny.rows.size()) { R.fail(Failure{"tld-domains-list", "kind=2 line=-1", "tld-domains.txt has " + std::to_string(k) + " lines, CSV " + std::to_string(T.puny.rows.size()) + " rows"}); return; }
        R.count("tld-domains-lines", k);
    }
    R.space("C11 all " + std::to_string(T.puny.rows.size()) + " rows of punycode.csv/raw.csv looked up (is_tld, is_utf8_domain, 3 ASCII modes, U-label in mode 6531) + all proper prefixes/suffixes/extensions that are absent from the CSV + tld-domains.txt line by line", R.evaluations * R.a.nworkers);
}

static void stage_random(Run &R) {
    rc_run(R, "C11 labels absent from the CSV are not found", 1.0, [&](Src &s) -> std::optional<Failure> {
        Bytes l;
        if (s.chance(1, 3)) { l = s.of(T.alist); uint32_t pos = s.pick((uint32_t) l.size()); l[pos] = "abcdefghijklmnopqrstuvwxyz0123456789-"[s.pick(37)]; }
        else l = gen::label(s, 1 + s.pick(14));
        return check_absent(R, l);
    });
}

static void stage_sequences(Run &R) {
    rc_run(R, "C11 the answer for a label does not depend on earlier lookups", 2.0, [&](Src &s) -> std::optional<Failure> {
        std::vector<Bytes> seq; uint32_t n = 2 + s.pick(10);
        for (uint32_t i = 0; i < n; i++) {
            uint32_t k = s.pick(8); Bytes l;
            if (k < 3) l = s.of(T.alist);
            else if (k < 5 && !seq.empty()) { const Bytes &b = seq[s.pick((uint32_t) seq.size())]; uint32_t a = s.pick((uint32_t) b.size()), m = 1 + s.pick((uint32_t) (b.size() - a)); l = b.substr(a, m); }   // part of an earlier one
            else if (k < 6 && !seq.empty()) { l = seq[s.pick((uint32_t) seq.size())]; if (s.chance(1, 2)) l += "abcdefghijklmnopqrstuvwxyz0123456789-"[s.pick(37)]; }                                   // repeat / extension
            else if (k < 7) { l = s.of(T.alist); for (auto &c : l) if (s.chance(1, 3)) c = (char) toupper((unsigned char) c); }
            else l = gen::label(s, 1 + s.pick(14));
            seq.push_back(l);
        }
        return check_seq(R, seq);
    });
}

static std::optional<Failure> replay(Run &R, const Case &c) {
    if (c.geti("kind") == 0) return check_row(R, (size_t) c.geti("row"));
    if (c.geti("kind") == 1) return check_absent(R, c.getb("label"));
    if (c.geti("kind") == 3) { std::vector<Bytes> seq; std::string t; std::istringstream is(c.gets("seq")); while (std::getline(is, t, ',')) seq.push_back(unhex(t)); return check_seq(R, seq); }
    Run R2; R2.a = R.a; R2.a.worker = 0; R2.a.nworkers = 1 << 30; // only the list comparison
    stage_rows(R2);
    if (R2.failed()) return R2.failures[0];
    return std::nullopt;
}

int main(int argc, char **argv) {
    return std_main(argc, argv, "C11", {{"rows", stage_rows}, {"random", stage_random}, {"sequences", stage_sequences}}, replay, [] { return g_case; },
        [](Run &R) { C = new Consts(A); return T.load(R.a.datadir); }, [] { delete C; });
}
