// C07 — TLD class equals the shipped IANA table, matched on the whole last label.
// Oracle: data/punycode.csv parsed at run time (oracle/ref.hpp::TldTable) with the
// documented class rule; exact, ASCII-case-insensitive lookup of the last label.
#include "../harness/rc_glue.hpp"
#include "../harness/gen.hpp"
#include "../harness/tldutil.hpp"

using namespace vf;
extern "C" const vapi dflt_api;
static const vapi *A = &dflt_api;
static TailBuf TB(4096);
static const Bytes *g_bytes;
static Obj *ALL[4], *NONE[4];
static Consts *C;
static Tlds T;

static Case mkcase(const Bytes &d) { Case c; c.b("domain", d); return c; }

static std::optional<Failure> check_one(Run &R, const Bytes &d) {
    g_bytes = &d;
    bool ascii = ref::pure_ascii(d);
    Bytes af = d;
    if (!ascii) { ToAscii t = to_ascii(d); if (t.rc != IDN2_OK) { R.count("skipped-idn-refuses"); return std::nullopt; } af = t.out; }
    if (!ref::host_ok(af) || af.back() == '.') { R.count("skipped-not-a-valid-host"); return std::nullopt; }
    if (ref::reserved(af)) { R.count("skipped-reserved(C09)"); return std::nullopt; }
    std::vector<Bytes> labs = ref::split_labels(af);
    const Bytes *cls = labs.size() >= 2 ? T.puny.find(labs.back()) : nullptr;
    int ci = cls ? C->idx(*cls) : -1;
    int want_rc = labs.size() < 2 ? -C->E_NOT_FQDN : cls ? C->tld_type[ci] : -C->E_TLD_INVALID;
    std::string wants = labs.size() < 2 ? "not FQDN" : cls ? "class " + *cls : "invalid TLD";
    R.count(labs.size() < 2 ? "single-label" : cls ? "listed:" + *cls : "unlisted");
    R.nontrivial(hashs(d));
    if (!ascii) R.sample("U-label", show(d) + " -> " + af, 3);
    // the local part must not matter: short, dotted, and long dotted ones (the last dot of the *address* may sit in the local part)
    static const Bytes LOCALS[] = {"x", "first.last", "a.b.c.d.e.f.g.h.i.j.k.l.m.n.o.p.q.r.s.t.u.v.w.x.y.z.0.1.2.3.4.5", "building.intranet-mailhost.0123456789.abcdefghij.klmnopqrst.uv",
                                   "\"abuse@corp.net\"", "\"a.b\".c", "x", "\"@\".\"q@r.museum\""};   // quoted '@' and dots: the class is that of the text behind the LAST '@'
    Bytes addr = LOCALS[(hashs(d) >> 7) & 7] + "@" + d;
    for (int m = ascii ? 0 : 3; m < 4; m++) {
        v_outcome o = email_direct(A, TB, m, addr, 1); R.eval();
        if (m == 3 && o.rc == -C->E_IDN) { R.count("6531-idn-error-skipped"); continue; }
        if (o.rc != want_rc)
            return Failure{cls ? "wrong-class" : "unlisted-label-classified", mkcase(d).str(), std::string("is_") + ref::MODE_NAME[m] + "_email('x@" + show(d) + "', tld on)->rc = " + std::to_string(o.rc) + ", table says " + wants + " (rc " + std::to_string(want_rc) + ")"};
        v_outcome a = ALL[m]->is_email_tail(TB, addr); R.eval();
        int want_err = cls ? C->E_NO_ERROR : -want_rc;
        if (a.ret != (cls ? 1 : 0) || a.errcode != want_err)
            return Failure{"errcode-all-bits-set", mkcase(d).str(), std::string("mode ") + ref::MODE_NAME[m] + " all class bits allowed, 'x@" + show(d) + "': " + outcome_str(a) + ", table says " + wants};
        v_outcome n = NONE[m]->is_email_tail(TB, addr); R.eval();
        want_err = cls ? C->eeav_tld[ci] : -want_rc;
        if (n.ret != 0 || n.errcode != want_err)
            return Failure{"errcode-no-bits-set", mkcase(d).str(), std::string("mode ") + ref::MODE_NAME[m] + " no class bit allowed, 'x@" + show(d) + "': " + outcome_str(n) + ", table says " + wants + " (errcode " + std::to_string(want_err) + ")"};
    }
    if (ascii && labs.size() >= 2) {
        int r = part0(A, TB, VP_TLD, labs.back()); R.eval();
        int w = cls ? C->tld_type[ci] : -C->E_TLD_INVALID;
        if (r != w) return Failure{"is_tld", mkcase(d).str(), "is_tld('" + show(labs.back()) + "') = " + std::to_string(r) + ", table says " + wants};
    }
    { int ir = 0; int r = part0(A, TB, VP_UTF8_DOMAIN, d, 1, &ir); R.eval();
      if (r != -C->E_IDN && r != want_rc) return Failure{"is_utf8_domain", mkcase(d).str(), "is_utf8_domain('" + show(d) + "', tld on) = " + std::to_string(r) + ", table says " + wants}; }
    if (!ascii) return check_one(R, af); // the A-label spelling must classify identically, in all modes
    return std::nullopt;
}
static bool run_one(Run &R, const Bytes &b) { auto f = check_one(R, b); return !(f && !R.fail(*f)); }

static Bytes casevar(const Bytes &s, int k) {
    Bytes o = s; if (!ref::pure_ascii(s)) return o;
    for (size_t i = 0; i < o.size(); i++) if (isalpha((unsigned char) o[i])) { if (k == 1 || (k == 2 && i % 2 == 0)) o[i] = (char) toupper((unsigned char) o[i]); }
    return o;
}

static void stage_table(Run &R) {
    static const char *PRE[] = {"a.", "a.b.", "mail.sub.x.", "w.x.y.z.", "home.", "example.", "www.home.", "local.", "test.", "arpa.", "localhost.", "com.", "x.example.y.", "invalid.a."};
    uint64_t total = 0;
    for (size_t r = 0; r < T.puny.rows.size(); r++) {
        if ((int) (r % R.a.nworkers) != R.a.worker) continue;
        const Bytes &t = T.puny.rows[r].domain;
        std::vector<Bytes> ds;
        for (int k = 0; k < 3; k++) for (const char *p : PRE) ds.push_back(Bytes(p) + casevar(t, k));
        for (size_t n = 1; n < t.size(); n++) ds.push_back("a." + t.substr(0, n));            // every proper prefix
        for (size_t n = 1; n < t.size(); n++) ds.push_back("a." + t.substr(n));               // every proper suffix
        for (char c : {'a', 'x', '0', 'z'}) { ds.push_back("a." + Bytes(1, c) + t); ds.push_back("a." + t + Bytes(1, c)); }
        ds.push_back("a.a-" + t); ds.push_back("a." + t + "-a"); ds.push_back("a." + t + t);
        std::vector<size_t> pos = {0, t.size() / 2, t.size() - 1};
        if (R.a.thorough) { pos.clear(); for (size_t i = 0; i < t.size(); i++) pos.push_back(i); }
        for (size_t i : pos) for (char c : {'q', '7', 'e'}) { Bytes u = t; if (u[i] == c || u[i] == '-') continue; u[i] = c; ds.push_back("a." + u); }
        ds.push_back(t + ".zzunlisted"); ds.push_back(t + ".a.zz"); ds.push_back(t + "." + t); ds.push_back("zzunlisted." + t);
        ds.push_back(t);                                                                        // single label
        if (T.ulabels.size() == T.puny.rows.size() && T.ulabels[r] != t) {                      // IDN row: U-label spelling (mode 6531)
            const Bytes &u = T.ulabels[r];
            for (const char *p : PRE) ds.push_back(Bytes(p) + u);
            ds.push_back(u + "." + u); ds.push_back(u);
            R.count("idn-rows");
        }
        // long U-label prefixes: the UTF-8 spelling exceeds 255 / 512 octets while the A-label form stays valid; the class is still that of the last label
        if (r % 8 == 0 || (T.ulabels.size() == T.puny.rows.size() && T.ulabels[r] != t)) {
            const Bytes &last = (T.ulabels.size() == T.puny.rows.size()) ? T.ulabels[r] : t;
            for (uint32_t unit : {0x436u, 0x4E2Du}) for (int nl : {2, 3, 4}) for (int n : {30, 40, 42, 55}) {
                Bytes d; for (int k = 0; k < nl; k++) { for (int i = 0; i < n; i++) d += ref::utf8_encode(unit + (i * 3 + k) % 20); d += '.'; }
                ds.push_back(d + last); if (last != t) ds.push_back(d + t);
            }
        }
        for (const Bytes &d : ds) { total++; if (!run_one(R, d)) return; }
    }
    R.space("C07 all " + std::to_string(T.puny.rows.size()) + " table rows x {3 case variants x 4 prefixes, every proper prefix and suffix, 8 one-character extensions, substitutions, neighbours, first-label use, single label, U-label forms}", total * R.a.nworkers);
}

static void stage_random(Run &R) {
    rc_run(R, "C07 random labels classify as the table says", 2.0, [&](Src &s) -> std::optional<Failure> {
        Bytes d; uint32_t nl = 1 + s.pick(4);
        for (uint32_t i = 0; i < nl; i++) { d += gen::label(s, 1 + s.pick(12)); d += '.'; }
        uint32_t k = s.pick(4);
        if (k == 0) d += gen::randcase(s, s.of(T.alist));
        else if (k == 1 && !T.idn_u.empty()) d += s.of(T.idn_u);
        else { Bytes l = gen::label(s, 1 + s.pick(10)); if (s.chance(1, 3)) { l = s.of(T.alist); gen::mutate(s, l, 1); } d += l; }
        for (auto &c : d) if (c == 0) c = 1;
        return check_one(R, d);
    });
}

// mass lookup of random unlisted labels through is_tld (cheap call): a lookup structure that identifies labels by anything less than
// their full text (hash, prefix index, ...) must still reject them.  One rapidcheck case expands to 100 000 labels.
static void stage_mass(Run &R) {
    rc_run(R, "C07 mass random labels are found iff they are in the table", 1.0, [&](Src &s) -> std::optional<Failure> {
        Src e(s.p, s.n); e.expand = true; e.i = s.n;    // deterministic expansion of the generated entropy
        static const char AB[] = "abcdefghijklmnopqrstuvwxyz0123456789-";
        for (int k = 0; k < 100000; k++) {
            uint32_t r = e.byte(); size_t len = 2 + r % (r & 0x80 ? 22 : 9); Bytes l;
            for (size_t i = 0; i < len; i++) l += AB[e.byte() % (i == 0 || i + 1 == len ? 36 : 37)];
            if (r % 5 == 0) { l = "xn--" + l; }
            const Bytes *cls = T.puny.find(l);
            int got = part0(A, TB, VP_TLD, l); R.eval();
            int want = cls ? C->tld_type[C->idx(*cls)] : -C->E_TLD_INVALID;
            if (got != want) { Case c; c.b("domain", "a." + l); return Failure{"is_tld-mass", c.str(), "is_tld('" + show(l) + "') = " + std::to_string(got) + ", table says " + (cls ? *cls : Bytes("invalid TLD"))}; }
        }
        R.count("mass-label-batches"); R.nontrivial(hashb(s.p, s.n, 77));
        return std::nullopt;
    });
}

static void stage_corpus(Run &R) {
    std::ifstream f(R.a.datadir + "/tld-domains.txt"); std::string line; uint64_t n = 0;
    while (std::getline(f, line)) {
        if (!line.empty() && line.back() == '\r') line.pop_back();
        if (line.empty() || line[0] == '#') continue;
        if ((int) (n++ % R.a.nworkers) != R.a.worker) continue;
        if (!run_one(R, line)) return;
        R.count("corpus-lines");
    }
}

#ifndef VF_FUZZ
int main(int argc, char **argv) {
    return std_main(argc, argv, "C07",
        {{"table", stage_table}, {"random", stage_random}, {"corpus", stage_corpus}, {"mass", stage_mass}},
        [](Run &R, const Case &c) { return check_one(R, c.getb("domain")); },
        [] { return g_bytes ? mkcase(*g_bytes).str() : std::string(); },
        [](Run &R) {
            C = new Consts(A);
            if (!T.load(R.a.datadir)) { fprintf(stderr, "cannot load CSVs from %s\n", R.a.datadir.c_str()); return false; }
            for (int m = 0; m < 4; m++) {
                ALL[m] = new Obj(A); if (ALL[m]->configure(m, 1, C->all_bits()) != 0) return false;
                NONE[m] = new Obj(A); if (NONE[m]->configure(m, 1, 0) != 0) return false;
            }
            return true;
        },
        [] { for (int m = 0; m < 4; m++) { delete ALL[m]; delete NONE[m]; } delete C; });
}
#else
VF_FUZZ_TARGET("C07", [](Run &R) { C = new Consts(A); if (!T.load(R.a.datadir)) return false; for (int m = 0; m < 4; m++) { ALL[m] = new Obj(A); if (ALL[m]->configure(m, 1, C->all_bits()) != 0) return false; NONE[m] = new Obj(A); if (NONE[m]->configure(m, 1, 0) != 0) return false; } return true; },
    [](Run &R, const uint8_t *d, size_t n) -> std::optional<Failure> { Bytes x = fuzz_bytes(d, n); if (x.empty()) return std::nullopt; R.sample("fuzz", show(x.substr(0, 80)), 4); return check_one(R, x); })
#endif
