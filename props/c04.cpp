// C04 — host-name domains: LDH labels, 63/253 limits, not all-numeric.
// ASCII modes: is_ascii_domain(D)==0  <=>  ref::host_ok(D), also through
// eav_is_email("x@"+D) with TLD checking off.  Mode 6531 (one direction, as
// stated): accepted => ref::host_ok(A), A = IDNA2008 A-label form computed by
// the harness with the IDN library (trusted base).
#include "../harness/rc_glue.hpp"
#include "../harness/gen.hpp"
#include "../harness/lib.hpp"

using namespace vf;
extern "C" const vapi dflt_api;
#ifndef VF_FUZZ
extern "C" const vapi uchar_api;   // the same code compiled with -funsigned-char (plain char unsigned, as on ARM / PowerPC)
#endif
static const vapi *A = &dflt_api;
static TailBuf TB(4096);
static const Bytes *g_bytes;
static Obj *OBJ[4], *OBJT[4];   // TLD checking off / on with every class allowed

static Case mkcase(const Bytes &d) { Case c; c.b("domain", d); return c; }

static std::optional<Failure> check_one(Run &R, const Bytes &d) {
    g_bytes = &d;
    bool want = ref::host_ok(d);
    int rc = part0(A, TB, VP_ASCII_DOMAIN, d);
    R.eval();
#ifndef VF_FUZZ
    { int ru = part0(&uchar_api, TB, VP_ASCII_DOMAIN, d); R.eval();
      if (ru != rc) return Failure{"char-signedness", mkcase(d).str(), "domain '" + show(d) + "': is_ascii_domain returns " + std::to_string(rc) + " in the default build and " + std::to_string(ru) + " when plain char is unsigned (-funsigned-char)"}; }
#endif
    size_t dots = std::count(d.begin(), d.end(), '.');
    if (dots >= 1 || d.size() >= 60 || d.find('-') != Bytes::npos) R.nontrivial(hashs(d));
    R.count(want ? "valid-host" : "invalid-host");
    if (want && d.size() > 200) R.sample("valid long", show(d), 2);
    if ((rc == 0) != want)
        return Failure{want ? "rejects-valid-host" : (d.size() >= 2 && d.substr(d.size() - 2) == ".." ? "accepts-empty-last-label" : "accepts-invalid-host"), mkcase(d).str(),
                       "domain '" + show(d) + "' (" + std::to_string(d.size()) + " octets): reference says " + (want ? "valid" : "invalid") + ", is_ascii_domain returned " + std::to_string(rc)};
    bool plain = !d.empty() && d[0] != '[' && d.find('@') == Bytes::npos;
    if (plain) {
        // the local part must not matter for the domain verdict: 1, 3, 20 or 64 octets by hash of the domain
        static const Bytes LOCALS[4] = {"x", "abc", Bytes(20, 'l'), Bytes(64, 'l')};
        Bytes addr = LOCALS[(hashs(d, 9) >> 3) & 3] + "@" + d;
        for (int m = 0; m < 3; m++) {
            v_outcome o = OBJ[m]->is_email_tail(TB, addr); R.eval();
            if ((o.ret == 1) != want)
                return Failure{want ? "email-rejects-valid-host" : "email-accepts-invalid-host", mkcase(d).str(),
                               "address '" + show(addr.substr(0, 70)) + (addr.size() > 70 ? "..." : "") + "' (local part of " + std::to_string(addr.size() - d.size() - 1) + " octets) mode " + ref::MODE_NAME[m] + " TLD off: reference host verdict " + (want ? "valid" : "invalid") + ", " + outcome_str(o)};
            if (o.ret == 1 && !o.is_domain)
                return Failure{"host-without-is_domain", mkcase(d).str(), "accepted host-name address without is_domain: " + outcome_str(o)};
        }
        // mode 6531: nothing violating the rules is accepted (judged on the A-label form)
        v_outcome o = OBJ[3]->is_email_tail(TB, addr); R.eval();
        if (o.ret == 1) {
            ToAscii t = to_ascii(d);
            R.count("6531-accepted");
            if (t.rc != IDN2_OK)
                return Failure{"6531-accepts-unconvertible", mkcase(d).str(), "mode 6531 accepted 'x@" + show(d) + "' but IDNA2008 conversion fails with " + std::to_string(t.rc)};
            if (!ref::host_ok(t.out))
                return Failure{"6531-accepts-invalid-alabel", mkcase(d).str(), "mode 6531 accepted 'x@" + show(d) + "' whose A-label form '" + show(t.out) + "' violates the host-name rules"};
            if (t.out != d) R.count("6531-accepted-converted");
        } else if (want && ref::pure_ascii(d)) R.count("6531-rejects-ascii-valid(IDNA rules)");
        // with TLD checking on (every class allowed) acceptance still implies a valid host name:
        // no TLD / reserved-name shortcut may bypass the syntax rules
        for (int m = 0; m < 4; m++) {
            v_outcome t = OBJT[m]->is_email_tail(TB, addr); R.eval();
            if (t.ret != 1) continue;
            bool okh = m < 3 ? want : (to_ascii(d).rc == IDN2_OK && ref::host_ok(to_ascii(d).out));
            if (!okh) return Failure{"tld-path-accepts-invalid-host", mkcase(d).str(), "address 'x@" + show(d) + "' mode " + ref::MODE_NAME[m] + " TLD checking on, all classes allowed: accepted although the host name" + (m < 3 ? "" : "'s A-label form") + " violates the rules: " + outcome_str(t)};
        }
    }
    return std::nullopt;
}
static bool run_one(Run &R, const Bytes &b) { auto f = check_one(R, b); return !(f && !R.fail(*f)); }

static void stage_bounded(Run &R) {
    static const char AL[] = {'a', '1', '-', '.', '_', '!'};
    const int K = sizeof AL;
    int maxlen = R.a.thorough ? 10 : 7;
    uint64_t total = 0, idx = 0;
    std::vector<int> d(maxlen, 0);
    for (int len = 1; len <= maxlen; len++) {
        uint64_t cnt = 1; for (int i = 0; i < len; i++) cnt *= K;
        total += cnt; std::fill(d.begin(), d.end(), 0);
        for (uint64_t n = 0; n < cnt; n++) {
            if ((int) ((idx++ / 32) % R.a.nworkers) == R.a.worker) {
                Bytes b; for (int i = 0; i < len; i++) b += AL[d[i]];
                if (!run_one(R, b)) return;
            }
            for (int i = len - 1; i >= 0; i--) { if (++d[i] < K) break; d[i] = 0; }
        }
    }
    R.space("C04 all strings of length 1.." + std::to_string(maxlen) + " over {a 1 - . _ !}", total);
}

static Bytes mklabel(size_t n, int style) {
    Bytes l;
    for (size_t i = 0; i < n; i++) {
        char c = style == 0 ? 'a' : style == 1 ? char('0' + i % 10) : (i % 7 == 3 && i + 1 < n && i > 0 ? '-' : char('a' + i % 26));
        l += c;
    }
    return l;
}
static void stage_lengths(Run &R) {
    uint64_t total = 0, idx = 0;
    auto go = [&](const Bytes &b) -> bool { total++; if ((int) (idx++ % R.a.nworkers) != R.a.worker) return true; return run_one(R, b); };
    // every label length 0..70 in first / middle / last position and alone
    for (size_t n = 0; n <= 300; n++) for (int style = 0; style < 3; style++) {
        if (n > 70 && style == 1 && n % 3) continue;
        Bytes L = mklabel(n, style);
        for (const Bytes &d : {L + ".b.com", "b." + L + ".com", "b.c." + L, L, L + ".", "b." + L + ".", L + "-.com", "-" + L + ".com", "b." + L + "-", "b.-" + L})
            if (!go(d)) return;
    }
    // every total length 240..260 x root-dot variants x label layouts
    for (size_t T = 240; T <= 260; T++) for (int layout = 0; layout < 4; layout++) {
        Bytes d; size_t ll = layout == 0 ? 63 : layout == 1 ? 1 : layout == 2 ? 50 : 62;
        while (d.size() < T) { size_t room = T - d.size(); size_t l = std::min(ll, room); if (!d.empty()) { if (room < 2) { d += 'a'; continue; } d += '.'; l = std::min(ll, room - 1); } d += mklabel(l, 2 * (layout & 1)); }
        if (d.size() != T) continue;
        if (d.back() == '.' || d.back() == '-') d.back() = 'z';
        for (const Bytes &v : {d, d + ".", d + "..", "." + d})
            if (!go(v)) return;
    }
    // every byte at first / interior / last position of a label
    for (int x = 1; x < 256; x++) {
        Bytes X(1, (char) x);
        for (const Bytes &d : {X + "b.com", "a" + X + "b.com", "a" + X + ".com", "a." + X + "b", "a.b" + X, "a.b" + X + "c", X, X + ".com", "a." + X})
            if (!go(d)) return;
    }
    // every byte inside a label in front of each reserved suffix and of listed TLDs (TLD path must not bypass the syntax rules)
    for (int x = 1; x < 256; x++) {
        Bytes X(1, (char) x);
        for (const char *sfx : {"example.com", "test", "localhost", "onion", "example.org", "invalid", "com", "ru", "xn--p1ai"})
            for (const Bytes &d : {"a" + X + "b." + sfx, X + "." + sfx}) if (!go(d)) return;
    }
    // IDNA-mapped spellings: ignorable code points (hundreds of them, so that the UTF-8 text passes 255 / 1023 / 2047 octets while the
    // A-label form stays short) followed by something invalid, and full-stop look-alikes as the only separators
    for (const Bytes &d : gen::idn_mapped_shapes("a", "com")) if (!go(d)) return;
    for (const Bytes &d : gen::idn_mapped_shapes("\xD0\xBF\xD0\xBE\xD1\x87\xD1\x82\xD0\xB0", "\xD1\x80\xD1\x84")) if (!go(d)) return;
    // all-numeric shapes
    for (const char *s : {"1", "12", "1.2", "1.2.3.4", "1.2.3.4.", "123.456", "1a.2", "1-2", "1.2-3", "0", "1.a", "a.1", "1_2", "4294967296", "1..2", "127.0.0.1", "1.2.3.com", "1.2.3.4.com"})
        if (!go(s)) return;
    R.space("C04 label lengths 0..300 x 3 fillings x 10 positions; total lengths 240..260 x 4 layouts x 4 dot variants; bytes 0x01..0xFF x 9 positions; numeric shapes", total);
}

// host names longer than 2^31 octets (length arithmetic in int would wrap): must be rejected like any name over 253
static std::optional<Failure> check_huge(Run &R, int shape) {
    Case cs; cs.i("huge", 1).i("shape", shape); size_t n = 0;
    char *s = huge_input(shape, &n); if (!s) { R.note("huge input: allocation failed, case skipped"); return std::nullopt; }
    int r = A->part(VP_ASCII_DOMAIN, s, s + n, 0, nullptr); R.eval();
    std::optional<Failure> f;
    if (r == 0) f = Failure{"huge-hostname-accepted", cs.str(), "host name of " + std::to_string(n) + " octets (shape " + std::to_string(shape) + ") accepted by is_ascii_domain"};
    if (!f && shape == 4) { s[0] = 'x'; s[1] = '@'; for (int m = 0; m < 3 && !f; m++) { v_outcome o; A->email_direct(m, s, n, 0, &o); R.eval(); if (o.rc == 0) f = Failure{"huge-hostname-accepted", cs.str(), std::string("address with a host name of ") + std::to_string(n - 2) + " octets accepted by is_" + ref::MODE_NAME[m] + "_email"}; } }
    free(s);
    R.nontrivial(hashs(cs.str())); R.count("huge-inputs"); R.sample("huge", "shape " + std::to_string(shape) + ", " + std::to_string(n) + " octets: is_ascii_domain=" + std::to_string(r), 4);
    return f;
}
static void stage_huge(Run &R) { for (int shape : {0, 4}) { if ((shape / 4) % R.a.nworkers != R.a.worker) continue; auto f = check_huge(R, shape); if (f && !R.fail(*f)) return; } }

// every byte value written over / inserted before every position of host names of different make-up
static void stage_bytes(Run &R) {
    uint64_t idx = 0, total = 0;
    std::vector<Bytes> tpl = {"mail.example.org", "a.b", "xn--80a1acny.xn--p1ai", "sub-domain.example-host.com.", "0123456789.com", "a_b.example.org", "x." + Bytes(63, 'l') + ".net", "1.2.3.4", "localhost", "A.B.C.D.E.F.RU"};
    for (const Bytes &t : tpl) for (size_t pos = 0; pos <= t.size(); pos++) for (int x = 1; x < 256; x++) {
        total += 2; if ((int) (idx++ % R.a.nworkers) != R.a.worker) continue;
        if (pos < t.size()) { Bytes r = t; r[pos] = (char) x; if (!run_one(R, r)) return; }
        Bytes i = t; i.insert(i.begin() + pos, (char) x); if (!run_one(R, i)) return;
    }
    R.space("C04 every byte 0x01..0xFF written over / inserted before every position of 10 host-name templates", total);
}

static void stage_random(Run &R) {
    rc_run(R, "C04 generated host names agree with the reference", 3.0, [&](Src &s) -> std::optional<Failure> {
        uint32_t k = s.pick(4);
        Bytes d = k == 0 ? gen::host_any(s) : k < 3 ? gen::host_mutated(s) : gen::idn_host(s);
        for (auto &c : d) if (c == 0) c = 1;
        if (d.empty()) d = "a";
        R.count(d.size() > 253 ? "len>253" : d.size() >= 240 ? "len240-253" : "len<240");
        R.sample("random", show(d), 6);
        return check_one(R, d);
    });
}

static void stage_corpus(Run &R) {
    for (const char *fn : {"domain-length.txt", "xn-dash-domains.txt", "underscore.txt", "tld-domains.txt"}) {
        std::ifstream f(R.a.datadir + "/" + fn); std::string line; int n = 0;
        while (std::getline(f, line)) {
            if (!line.empty() && line.back() == '\r') line.pop_back();
            if (line.empty() || line[0] == '#' || line.find('\0') != std::string::npos) continue;
            if (std::string(fn) == "tld-domains.txt" && (n++ % 16) != 0) continue;
            size_t at = line.rfind('@');
            if (!run_one(R, at == std::string::npos ? line : line.substr(at + 1))) return;
            R.count("corpus-lines");
        }
    }
}

#ifndef VF_FUZZ
int main(int argc, char **argv) {
    Run R; R.a = parse_args(argc, argv); R.prop = "C04";
    install_death(R.a); WatchdogGuard wdg; install_watchdog(&R.evaluations, R.a.stage == "huge" ? 60 : 10);
    inflight() = [] { return g_bytes ? mkcase(*g_bytes).str() : std::string(); };
    for (int m = 0; m < 4; m++) { OBJ[m] = new Obj(A); if (OBJ[m]->configure(m, 0) != 0) { fprintf(stderr, "eav_setup failed\n"); return 2; } }
    for (int m = 0; m < 4; m++) { OBJT[m] = new Obj(A); if (OBJT[m]->configure(m, 1, 0x7ff) != 0) return 2; }
    int rcode;
    if (!R.a.replay.empty()) {
        Case rc_ = Case::parse(R.a.replay);
        auto f = rc_.has("huge") ? check_huge(R, (int) rc_.geti("shape")) : check_one(R, rc_.getb("domain"));
        if (f) { printf("REPLAY-FAIL %s: %s\n", f->cls.c_str(), f->explain.c_str()); rcode = 3; }
        else { printf("REPLAY-PASS\n"); rcode = 0; }
    } else {
        if (R.a.stage == "bounded") stage_bounded(R);
        else if (R.a.stage == "lengths") stage_lengths(R);
        else if (R.a.stage == "huge") stage_huge(R);
        else if (R.a.stage == "random") stage_random(R);
        else if (R.a.stage == "corpus") stage_corpus(R);
        else if (R.a.stage == "bytes") stage_bytes(R);
        else { fprintf(stderr, "unknown stage %s\n", R.a.stage.c_str()); return 2; }
        rcode = finish(R);
    }
    for (int m = 0; m < 4; m++) { delete OBJ[m]; delete OBJT[m]; }
    return rcode;
}
#else
VF_FUZZ_TARGET("C04", [](Run &) { for (int m = 0; m < 4; m++) { OBJ[m] = new Obj(A); if (OBJ[m]->configure(m, 0) != 0) return false; OBJT[m] = new Obj(A); if (OBJT[m]->configure(m, 1, 0x7ff) != 0) return false; } return true; },
    [](Run &R, const uint8_t *d, size_t n) -> std::optional<Failure> { Bytes x = fuzz_bytes(d, n); if (x.empty()) return std::nullopt; R.sample("fuzz", show(x.substr(0, 80)), 4); return check_one(R, x); })
#endif
